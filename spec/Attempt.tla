------------------------------ MODULE Attempt ------------------------------
(* ONE match attempt of a logos lexer, input of UNBOUNDED length.             *)
(*                                                                            *)
(* Symbolic product of                                                        *)
(*   - the graph the real derive built for a definition (captured by the      *)
(*     logos_verif hook, constant D.g),                                       *)
(*   - one independently built reference automaton per pattern (D.ref[i],     *)
(*     delayed reporting as in regex-automata: rep[delta(s,x)] <=> the text   *)
(*     before x matches in this context),                                     *)
(*   - the UTF-8 validity automaton (str mode).                               *)
(* The input is chosen one byte *block* at a time (blocks partition 0..255    *)
(* so that every automaton treats all bytes of a block alike), hence the      *)
(* state is the product state, not the input, and the exploration covers      *)
(* inputs of every length.                                                    *)
(*                                                                            *)
(* The two "last match ends" are compared exactly without storing positions:  *)
(* each is only ever reset to pos or pos-1, so ages capped at 2 plus one      *)
(* boolean suffice (DESIGN.md Appendix A).                                    *)
(*                                                                            *)
(* Violations are either reported by TLC as invariant violations (HALT=1) or  *)
(* logged as VIOL lines while the exploration goes on (default), and every    *)
(* distinct product state prints one REPLAY line with the outcome the         *)
(* *reference* prescribes for each next symbol, for end of input and for end  *)
(* of a prefix buffer; the harness runs those against the compiled lexers.    *)
EXTENDS Naturals, Sequences, FiniteSets, TLC, Json, IOUtils, Utf8, Graph

Defs == ndJsonDeserialize(IOEnv.DEFS)
Halt == IOEnv.HALT = "1"
Emit == IOEnv.EMIT = "1"

VARIABLES d,        \* index of the definition under exploration
          g,        \* graph state, 0 = the generated code has left the attempt
          r,        \* tuple of reference states, 0 = dead
          ctx,      \* graph: leaf recorded last (0 = none)      [context]
          refLeaf,  \* reference: leaf of the last report (0 = none)
          aG, aR,   \* ages of the two recorded ends relative to pos (NoAge, 0, 1, 2 = ">= 2")
          same,     \* the two ends are equal (meaningful when both ages are 2)
          atStart,  \* no byte consumed yet
          zeroEnd,  \* the graph's recorded end equals the token start
          endOk,    \* str mode: the graph's recorded end is a char boundary
          u,        \* UTF-8 automaton state (str mode), else 0
          detPrev,  \* look-around definitions: the item was already determined one byte ago
          path,     \* hidden: the blocks consumed so far (the witness)
          eG, eR,   \* hidden: absolute recorded ends for this path
          fG, fR    \* hidden: absolute position of the byte on which each side stopped (NoPos = not yet)

view == <<d, g, r, ctx, refLeaf, aG, aR, same, atStart, zeroEnd, endOk, u, detPrev>>
vars == <<d, g, r, ctx, refLeaf, aG, aR, same, atStart, zeroEnd, endOk, u, detPrev, path, eG, eR, fG, fR>>

NoAge == 9
NoPos == 1000000
Inc(a) == IF a = NoAge THEN NoAge ELSE IF a >= 1 THEN 2 ELSE a + 1
Small(a) == a # 2
AgeEq(x, y, s) == IF Small(x) \/ Small(y) THEN x = y ELSE s

D    == Defs[d]
NB   == D.nB
NL   == D.nL
IsStr == D.mode = "str"
Pos  == Len(path)
HasLook == \E i \in 1..NL : D.ref[i].look

Sel == {i \in 1..Len(Defs) : Defs[i].accepted /\ Defs[i].hasGraph /\ Defs[i].refsOk}

-----------------------------------------------------------------------------
(* Reference side *)
RStep(rr, x) == [i \in 1..NL |-> IF rr[i] = 0 THEN 0 ELSE D.ref[i].tr[rr[i]][x]]
REoi(rr)     == [i \in 1..NL |-> IF rr[i] = 0 THEN 0 ELSE D.ref[i].eoi[rr[i]]]
RepSet(rr)   == {i \in 1..NL : rr[i] # 0 /\ D.ref[i].rep[rr[i]]}
Viable(rr)   == \E i \in 1..NL : rr[i] # 0 /\ D.ref[i].via[rr[i]]
Top(M)       == {i \in M : \A j \in M : D.prio[j] <= D.prio[i]}
Winner(M)    == IF M = {} THEN 0 ELSE CHOOSE i \in Top(M) : TRUE

ValidNext(x) == ~IsStr \/ U8Step(u, D.u8[x]) # U8Bad
Syms == {x \in 1..NB : ValidNext(x)}
CanEnd == ~IsStr \/ u = 0          \* the input / the prefix buffer may end here

(* Everything both sides do on a next symbol; x = 0 stands for end of input. *)
Sym(x) ==
  LET r2  == IF x = 0 THEN REoi(r) ELSE RStep(r, x)
      M   == RepSet(r2)
      m   == Winner(M)
      via == IF x = 0 THEN FALSE ELSE Viable(r2)
  IN [r2 |-> r2, M |-> M, m |-> m, via |-> via,
      aR1 |-> IF m # 0 THEN 0 ELSE aR,
      rl1 |-> IF m # 0 THEN m ELSE refLeaf,
      eR1 |-> IF m # 0 THEN Pos ELSE eR,
      fR1 |-> IF fR # NoPos THEN fR ELSE IF via THEN NoPos ELSE Pos,
      g2  |-> IF g = 0 THEN 0 ELSE IF x = 0 THEN GEoi(D.g, g) ELSE GEdge(D.g, g, x),
      fG1 |-> IF fG # NoPos THEN fG ELSE Pos]

(* Outcome the reference prescribes once it has stopped on symbol x. *)
RefOut(a) == IF a.rl1 = 0 THEN [k |-> "err", leaf |-> 0, end |-> IF a.fR1 > 1 THEN a.fR1 ELSE 1]
             ELSE [k |-> "tok", leaf |-> a.rl1, end |-> a.eR1]

(* Outcome of the generated code (as modelled from the captured graph) when it stops on x. *)
GraphOutByte(a) == IF ctx = 0 THEN [k |-> "err", leaf |-> 0, end |-> IF a.fG1 > 1 THEN a.fG1 ELSE 1]
                   ELSE [k |-> "tok", leaf |-> ctx, end |-> eG]
(* EOI edge: offset += 1, the target records end(offset - 1) = pos if it is a late accept; a target  *)
(* without a mark (only in graphs before the prune pass) records nothing                             *)
EoiRecords(a)   == a.g2 # 0 /\ D.g.accept[a.g2] # 0
GraphOutEoi(a)  == IF EoiRecords(a) THEN [k |-> "tok", leaf |-> D.g.accept[a.g2], end |-> Pos]
                   ELSE GraphOutByte(a)

-----------------------------------------------------------------------------
Init ==
  /\ d \in Sel
  /\ g = Defs[d].g.root
  /\ r = [i \in 1..Defs[d].nL |-> Defs[d].ref[i].start]
  /\ ctx = 0 /\ refLeaf = 0 /\ aG = NoAge /\ aR = NoAge /\ same = TRUE
  /\ atStart = TRUE /\ zeroEnd = FALSE /\ endOk = TRUE /\ u = 0 /\ detPrev = FALSE
  /\ path = <<>> /\ eG = 0 /\ eR = 0 /\ fG = NoPos /\ fR = NoPos

(* The item is determined by what has been read: no continuation (any next   *)
(* byte, or end of input) can change the reference outcome.                   *)
Det ==
  /\ ~atStart
  /\ LET e == Sym(0) IN
     \A x \in Syms : LET a == Sym(x) IN ~a.via /\ a.m = e.m

(* One byte is consumed by at least one of the two sides. *)
Step(x) ==
  LET a == Sym(x) IN
  /\ x \in Syms
  /\ a.g2 # 0 \/ a.via                       \* otherwise both have stopped: terminal
  /\ LET kind == IF a.g2 = 0 THEN "none" ELSE GRecKind(D.g, a.g2)
         leaf == IF a.g2 = 0 THEN 0 ELSE GRecLeaf(D.g, a.g2)
         u2   == IF IsStr THEN U8Step(u, D.u8[x]) ELSE 0
         aG2  == IF kind = "early" THEN 0 ELSE IF kind = "late" THEN 1 ELSE Inc(aG)
         aR2  == Inc(a.aR1)
     IN
     /\ g' = a.g2
     /\ r' = a.r2
     /\ refLeaf' = a.rl1
     /\ aR' = aR2
     /\ aG' = aG2
     /\ same' = IF Small(aG2) \/ Small(aR2) THEN TRUE ELSE AgeEq(aG, a.aR1, same)
     /\ ctx' = IF kind = "none" THEN ctx ELSE leaf
     /\ zeroEnd' = IF kind = "early" THEN FALSE ELSE IF kind = "late" THEN atStart ELSE zeroEnd
     /\ endOk' = IF kind = "early" THEN u2 = 0 ELSE IF kind = "late" THEN u = 0 ELSE endOk
     /\ atStart' = FALSE
     /\ u' = u2
     /\ detPrev' = (HasLook /\ Det)
     /\ path' = Append(path, x)
     /\ eR' = a.eR1
     /\ eG' = IF kind = "early" THEN Pos + 1 ELSE IF kind = "late" THEN Pos ELSE eG
     /\ fR' = a.fR1
     /\ fG' = IF a.g2 = 0 THEN a.fG1 ELSE NoPos
     /\ d' = d

Next == \E x \in 1..NB : Step(x)

Spec == Init /\ [][Next]_vars

-----------------------------------------------------------------------------
(* Logging / halting wrapper: W is the set of violating witnesses. *)
Report(tag, W) ==
  IF W = {} THEN TRUE
  ELSE /\ PrintT(<<"VIOL", tag, ToJson([d |-> d, path |-> path, w |-> W])>>)
       /\ ~Halt

Terminal(a) == a.g2 = 0 /\ ~a.via

(* T-live (C01): the generated code leaves the attempt on x only if no longer match is possible. *)
TLive == Report("TLive", {x \in Syms : LET a == Sym(x) IN g # 0 /\ a.g2 = 0 /\ a.via})

(* T-exact (C02): it consumes x only if x can still lead to a match, or x reveals a match that     *)
(* ended just before it (late accept).                                                             *)
TExact == Report("TExact", {x \in Syms : LET a == Sym(x) IN a.g2 # 0 /\ ~a.via /\ a.m = 0})

(* T-munch (C01, C02, C10, C11): whenever both sides have stopped, their recorded ends and leaves  *)
(* are equal -- decided on the abstract state (ages), hence for EVERY input that leads to this     *)
(* product state.  (Equality of the two error ends follows from TLive /\ TExact: with no report    *)
(* ever, both sides stop on the same byte.)                                                        *)
TMunch == Report("TMunch",
  {x \in Syms : LET a == Sym(x) IN
     Terminal(a) /\ ~(AgeEq(aG, a.aR1, same) /\ ctx = a.rl1)})

(* the same comparison on the hidden absolute positions of this witness path, error ends included  *)
(* (cross-checks the age abstraction; gives concrete numbers for the replay)                       *)
TMunchAbs == Report("TMunchAbs",
  {x \in Syms : LET a == Sym(x) IN Terminal(a) /\ GraphOutByte(a) # RefOut(a)})

(* end of input: either the EOI edge is taken (the target records a late accept whose end is pos), *)
(* or the attempt returns with what it has recorded                                                *)
TMunchEoi == Report("TMunchEoi",
  IF atStart \/ ~CanEnd THEN {}
  ELSE LET a == Sym(0) IN
       (IF EoiRecords(a) THEN (IF a.m # 0 /\ D.g.accept[a.g2] = a.m THEN {} ELSE {"hop"})
        ELSE (IF AgeEq(aG, a.aR1, same) /\ ctx = a.rl1 THEN {} ELSE {"rec"}))
       \cup (IF GraphOutEoi(a) # RefOut(a) THEN {"abs"} ELSE {}))

(* T-root (C03): shape the generated code relies on. *)
TRoot == Report("TRoot",
  IF g = 0 THEN {}
  ELSE (IF atStart /\ ~(g = D.g.root /\ GRecKind(D.g, g) = "none") THEN {"root"} ELSE {})
       \cup (IF ~GEoiTargetOk(D.g, g) THEN {"eoi"} ELSE {}))

(* T-prog (C03): an attempt that emits or skips has a non-empty span; no accepted definition has  *)
(* a pattern that matches the empty string.                                                        *)
Ends == Syms \cup (IF CanEnd /\ ~atStart THEN {0} ELSE {})
TProg == Report("TProg",
  {x \in Ends : LET a == Sym(x) IN
     /\ IF x = 0 THEN a.g2 = 0 ELSE Terminal(a)
     /\ ctx # 0 /\ zeroEnd})
TNullable == Report("TNullable", IF atStart THEN {i \in 1..NL : D.ref[i].nullable} ELSE {})

(* T-utf8 (C04): on str input every end the attempt can return with is a char boundary. *)
TUtf8 == Report("TUtf8",
  IF ~IsStr THEN {}
  ELSE {x \in Ends : LET a == Sym(x) IN
          /\ IF x = 0 THEN a.g2 = 0 ELSE Terminal(a)
          /\ ctx # 0 /\ ~endOk})

(* T-tie (C08): an accepted definition never has to choose between equal priorities. *)
TTie == Report("TTie",
  {x \in Syms \cup {0} : LET a == Sym(x) IN Cardinality(Top(a.M)) > 1})

(* T-part (C07), model of the generator's rule at the end of a prefix buffer. *)
Commits == ~atStart /\ (g = 0 \/ ~GPrefixReturnsNone(D.g, g))
MustCommit == Det /\ (~HasLook \/ detPrev)
TPartSafe   == Report("TPartSafe",   IF CanEnd /\ Commits /\ ~Det THEN {0} ELSE {})
TPartPrompt == Report("TPartPrompt", IF CanEnd /\ MustCommit /\ ~Commits THEN {0} ELSE {})

-----------------------------------------------------------------------------
(* One REPLAY line per distinct product state: what the REFERENCE prescribes for every next     *)
(* block (cont = the attempt goes on, bad = not valid UTF-8 here), for end of input, and for the   *)
(* end of a prefix buffer (must: none | commit | either).                                          *)
T3(o) == <<o.k, o.leaf, o.end>>
Cont == <<"cont", 0, 0>>
Bad  == <<"bad", 0, 0>>
None == <<"none", 0, 0>>

ReplayRec ==
  [d |-> d, path |-> path,
   term |-> [x \in 1..NB |->
               IF x \notin Syms THEN Bad
               ELSE LET a == Sym(x) IN IF a.via THEN Cont ELSE T3(RefOut(a))],
   eoi  |-> IF ~CanEnd THEN Bad ELSE IF atStart THEN None ELSE T3(RefOut(Sym(0))),
   buf  |-> IF ~CanEnd THEN Bad ELSE IF ~Det THEN None ELSE T3(RefOut(Sym(0))),
   must |-> IF ~CanEnd THEN "skip" ELSE IF ~Det THEN "none" ELSE IF MustCommit THEN "commit" ELSE "either"]

EmitReplay == Emit => PrintT(<<"REPLAY", ToJson(ReplayRec)>>)

=============================================================================
