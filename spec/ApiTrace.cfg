SPECIFICATION TraceSpec
CHECK_DEADLOCK FALSE
INVARIANTS
  SpanInv
POSTCONDITION TraceAccepted
