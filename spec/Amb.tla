-------------------------------- MODULE Amb --------------------------------
(* T-amb (C08): which sets of patterns tie at the top priority on some string? *)
(*                                                                            *)
(* Explores the product of the per-pattern reference automata of a            *)
(* definition (accepted or rejected), priorities as captured from the real    *)
(* derive.  For every reachable product state and every next symbol (a block  *)
(* or end of input) the set of patterns that report a match and share the     *)
(* highest priority is computed; a set with two or more members is a tie and  *)
(* is printed with its witness path.  The family of tie sets is determined    *)
(* by the languages alone, so the harness compares it with the family of      *)
(* Disambiguation errors the derive reported: equal <=> the derive rejects    *)
(* exactly the ambiguous definitions and names exactly the conflicting        *)
(* patterns.                                                                  *)
EXTENDS Naturals, Sequences, FiniteSets, TLC, Json, IOUtils

Defs == ndJsonDeserialize(IOEnv.DEFS)

VARIABLES d, r, path
view == <<d, r>>
vars == <<d, r, path>>

D  == Defs[d]
NB == D.nB
NL == D.nL

Sel == {i \in 1..Len(Defs) : Defs[i].refsOk /\ Defs[i].nL > 0
                             /\ \A k \in 1..Defs[i].nL : ~Defs[i].ref[k].nullable}

RStep(rr, x) == [i \in 1..NL |-> IF rr[i] = 0 THEN 0 ELSE D.ref[i].tr[rr[i]][x]]
REoi(rr)     == [i \in 1..NL |-> IF rr[i] = 0 THEN 0 ELSE D.ref[i].eoi[rr[i]]]
RepSet(rr)   == {i \in 1..NL : rr[i] # 0 /\ D.ref[i].rep[rr[i]]}
Alive(rr)    == \E i \in 1..NL : rr[i] # 0
Top(M)       == {i \in M : \A j \in M : D.prio[j] <= D.prio[i]}

Init == /\ d \in Sel
        /\ r = [i \in 1..Defs[d].nL |-> Defs[d].ref[i].start]
        /\ path = <<>>

Next == \E x \in 1..NB :
          /\ Alive(RStep(r, x))
          /\ r' = RStep(r, x)
          /\ path' = Append(path, x)
          /\ d' = d

Spec == Init /\ [][Next]_vars

TiesHere == {T \in {Top(RepSet(IF x = 0 THEN REoi(r) ELSE RStep(r, x))) : x \in 0..NB} : Cardinality(T) > 1}

(* strict form, for TLC's own counterexample: an ACCEPTED definition has no tie *)
NoTieIfAccepted == D.accepted => TiesHere = {}

(* logging form: print every tie set with its witness; always TRUE *)
LogTies == TiesHere # {} => PrintT(<<"TIE", ToJson([d |-> d, path |-> path, ties |-> TiesHere])>>)

(* each distinct state is counted by the harness through the statistics line *)
=============================================================================
