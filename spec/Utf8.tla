------------------------------- MODULE Utf8 -------------------------------
(* The UTF-8 validity automaton over the 14 structural byte classes.        *)
(* Classes (harness: gen/src/main.rs utf8_class):                           *)
(*  1: 00-7F   2: 80-8F  3: 90-9F  4: A0-BF  5: C0-C1  6: C2-DF  7: E0      *)
(*  8: E1-EC   9: ED    10: EE-EF 11: F0    12: F1-F3 13: F4    14: F5-FF   *)
(* States: 0 boundary; 1,2,3 = that many unrestricted continuation bytes    *)
(* still needed; 4 after E0; 5 after ED; 6 after F0; 7 after F4.            *)
(* U8Bad (= 99) is the sink for invalid sequences.                          *)
EXTENDS Naturals

U8Bad == 99
U8States == 0..7

IsCont(c) == c \in {2, 3, 4}

U8Step(u, c) ==
  CASE u = 0 -> (CASE c = 1  -> 0
                   [] c = 6  -> 1
                   [] c = 7  -> 4
                   [] c = 8  -> 2
                   [] c = 9  -> 5
                   [] c = 10 -> 2
                   [] c = 11 -> 6
                   [] c = 12 -> 3
                   [] c = 13 -> 7
                   [] OTHER  -> U8Bad)
    [] u = 1 -> IF IsCont(c) THEN 0 ELSE U8Bad
    [] u = 2 -> IF IsCont(c) THEN 1 ELSE U8Bad
    [] u = 3 -> IF IsCont(c) THEN 2 ELSE U8Bad
    [] u = 4 -> IF c = 4 THEN 1 ELSE U8Bad
    [] u = 5 -> IF c \in {2, 3} THEN 1 ELSE U8Bad
    [] u = 6 -> IF c \in {3, 4} THEN 2 ELSE U8Bad
    [] u = 7 -> IF c = 2 THEN 2 ELSE U8Bad
    [] OTHER -> U8Bad

=============================================================================
