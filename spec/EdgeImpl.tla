------------------------------ MODULE EdgeImpl ------------------------------
(* How the code generators turn the byte classes on the edges of a graph state  *)
(* into tests (logos-codegen graph/mod.rs: ByteClass::impl_with_cmp,            *)
(* Comparisons::count_ops, ByteClass::to_table, ByteClass::merge,               *)
(* StateData::can_error; generator/fork.rs: impl_fork / impl_fork_match).       *)
(*                                                                              *)
(* A class is a sequence of inclusive byte ranges, sorted, any two separated by *)
(* at least one byte that is not in the class (what ByteClass::add_byte builds).*)
(* The transcription below is the ALGORITHM; what it must achieve is stated     *)
(* separately (CmpExact, CanErrorExact, MergeExact, KindSound) and checked by   *)
(* TLC for every class / state TLC enumerates from a boundary-biased family of  *)
(* byte values.  Every enumerated case is printed with the result the           *)
(* transcription computes; the harness asks the real functions (through the     *)
(* hook) for the same cases and compares: a difference in representation is     *)
(* drift, a difference in MEANING (a byte for which the emitted test differs    *)
(* from membership) is turned into concrete definitions and inputs and run on   *)
(* the compiled lexers.                                                         *)
EXTENDS Naturals, Sequences, FiniteSets, TLC, Json, IOUtils

Byte == 0..255
(* the family of interesting byte values: both ends, ASCII / non-ASCII border, UTF-8 class borders, *)
(* some ordinary values, and neighbours at distance one and two so that holes of width 1 and 2 occur *)
Small == IF "FAM" \in DOMAIN IOEnv THEN IOEnv.FAM = "small" ELSE FALSE
Bnd == IF Small THEN <<0, 1, 2, 3, 47, 48, 127, 128, 129, 254, 255>>
       ELSE <<0, 1, 2, 3, 47, 48, 49, 50, 126, 127, 128, 129, 130, 191, 192, 253, 254, 255>>
MaxRanges == IF "MAXRANGES" \in DOMAIN IOEnv THEN atoi(IOEnv.MAXRANGES) ELSE 3

-----------------------------------------------------------------------------
(* classes *)
InCls(c, b) == \E i \in 1..Len(c) : c[i][1] <= b /\ b <= c[i][2]
Members(c) == {b \in Byte : InCls(c, b)}
WellFormed(c) == /\ \A i \in 1..Len(c) : c[i][1] <= c[i][2]
                 /\ \A i \in 1..(Len(c) - 1) : c[i][2] + 1 < c[i + 1][1]

(* ByteClass::impl_with_cmp: a range that starts exactly two after the end of the previous *)
(* comparison is folded into it, the byte in between becomes an exception                   *)
RECURSIVE Fold(_, _)
Fold(c, acc) ==
  IF c = <<>> THEN acc
  ELSE LET r == Head(c) IN
       IF acc # <<>> /\ r[1] = acc[Len(acc)].hi + 2
       THEN Fold(Tail(c), [acc EXCEPT ![Len(acc)] = [lo |-> @.lo, hi |-> r[2], except |-> Append(@.except, r[1] - 1)]])
       ELSE Fold(Tail(c), Append(acc, [lo |-> r[1], hi |-> r[2], except |-> <<>>]))
ImplWithCmp(c) == Fold(c, <<>>)

(* Comparisons::count_ops *)
CountOps(m) == (IF m.lo = m.hi THEN 1
                ELSE (IF m.lo > 0 THEN 1 ELSE 0) + (IF m.hi < 255 THEN 1 ELSE 0)) + Len(m.except)
RECURSIVE SumOps(_)
SumOps(ms) == IF ms = <<>> THEN 0 ELSE CountOps(Head(ms)) + SumOps(Tail(ms))

(* the condition impl_fork_match emits for one comparison: a single byte is compared with ==      *)
(* (its exceptions, if it had any, would be dropped), a longer range with matches! and != ...     *)
Range(s) == {s[i] : i \in 1..Len(s)}
CmpHolds(m, b) == IF m.lo = m.hi THEN b = m.lo
                  ELSE m.lo <= b /\ b <= m.hi /\ b \notin Range(m.except)
CondHolds(ms, b) == \E i \in 1..Len(ms) : CmpHolds(ms[i], b)

(* which kind of test an edge gets: in a state with more than two edges a row of the jump table,  *)
(* otherwise comparisons when they cost at most two operations, else a bit of a look-up table     *)
Kind(c, nEdges) == IF nEdges > 2 THEN "table" ELSE IF SumOps(ImplWithCmp(c)) > 2 THEN "lut" ELSE "cmp"

(* StateData::can_error: sort all ranges of all edges by start; no error is possible iff the first *)
(* starts at 0, the last ends at 255 and no two neighbours leave a gap                             *)
AllRanges(edges) == UNION {{edges[i][j] : j \in 1..Len(edges[i])} : i \in 1..Len(edges)}
CanError(edges) ==
  LET R == AllRanges(edges) IN
  \/ R = {}
  \/ ~(\E r \in R : r[1] = 0 /\ \A q \in R : q[1] >= r[1])
  \/ ~(\E r \in R : r[2] = 255 /\ \A q \in R : q[1] <= r[1])
  \/ \E r, q \in R : /\ r[1] < q[1]
                     /\ ~(\E m \in R : r[1] < m[1] /\ m[1] < q[1])
                     /\ r[2] + 1 < q[1]

(* ByteClass::merge: the union, ranges rebuilt byte by byte (adjacent ranges coalesce) *)
Runs(S) == {<<lo, hi>> \in Byte \X Byte :
              /\ lo <= hi /\ (lo..hi) \subseteq S
              /\ (lo = 0 \/ (lo - 1) \notin S) /\ (hi = 255 \/ (hi + 1) \notin S)}
SeqOfRuns(S) == LET R == Runs(S)
                    n == Cardinality(R)
                IN [k \in 1..n |-> CHOOSE r \in R : Cardinality({q \in R : q[1] <= r[1]}) = k]
Merge(a, b) == SeqOfRuns(Members(a) \cup Members(b))

-----------------------------------------------------------------------------
(* what the algorithm must achieve *)
CmpExact(c)        == \A b \in Byte : CondHolds(ImplWithCmp(c), b) <=> InCls(c, b)
NoLostExceptions(c) == \A i \in 1..Len(ImplWithCmp(c)) : LET m == ImplWithCmp(c)[i] IN m.lo = m.hi => m.except = <<>>
CanErrorExact(es)  == CanError(es) <=> (\E b \in Byte : \A i \in 1..Len(es) : ~InCls(es[i], b))
MergeExact(a, b)   == /\ WellFormed(Merge(a, b))
                      /\ Members(Merge(a, b)) = Members(a) \cup Members(b)
(* an inline comparison never costs more than two operations plus its exceptions: the bound the   *)
(* generator relies on when it prefers comparisons to a table look-up                             *)
KindSound(c)       == Kind(c, 1) = "cmp" => Len(ImplWithCmp(c)) <= 2

-----------------------------------------------------------------------------
(* enumeration: a class is chosen range by range from increasing positions in a family of byte values. *)
(* Single classes ("class") use the large family and up to MaxRanges ranges; the edges of a state        *)
(* ("e1" then "e2", then closed) use the small family and at most two ranges per edge, because every      *)
(* pair of classes is explored.                                                                            *)
VARIABLES mode,    \* "class" | "e1" | "e2" | "done"
          cls,     \* the class being built
          pos,     \* index into the family of the last end used
          edges    \* the finished edges of the state
vars == <<mode, cls, pos, edges>>

BndS == IF Small THEN <<0, 1, 2, 127, 128, 254, 255>> ELSE <<0, 1, 2, 127, 128, 129, 254, 255>>
Fam == IF mode = "class" THEN Bnd ELSE BndS
Cap == IF mode = "class" THEN MaxRanges ELSE 2

Init == mode \in {"class", "e1"} /\ cls = <<>> /\ pos = 0 /\ edges = <<>>

(* append a range [Fam[i], Fam[j]] that starts at least two after the previous end *)
AddRange == /\ mode \in {"class", "e1", "e2"} /\ Len(cls) < Cap
            /\ \E i \in (pos + 1)..Len(Fam) : \E j \in i..Len(Fam) :
                  /\ (IF cls = <<>> THEN TRUE ELSE Fam[i] > cls[Len(cls)][2] + 1)
                  /\ cls' = Append(cls, <<Fam[i], Fam[j]>>)
                  /\ pos' = j
            /\ UNCHANGED <<mode, edges>>

(* a finished first edge; a second class, disjoint from it, is built next; then the state is closed,  *)
(* with or without a third edge that takes all the remaining bytes                                     *)
Disjoint(a, b) == Members(a) \cap Members(b) = {}
ToSecond == /\ mode = "e1" /\ cls # <<>>
            /\ mode' = "e2" /\ edges' = <<cls>> /\ cls' = <<>> /\ pos' = 0
Close(withRest) ==
           /\ mode = "e2" /\ cls # <<>> /\ Disjoint(cls, edges[1])
           /\ LET rest == SeqOfRuns(Byte \ (Members(cls) \cup Members(edges[1]))) IN
              edges' = IF withRest /\ rest # <<>> THEN <<edges[1], cls, rest>> ELSE <<edges[1], cls>>
           /\ mode' = "done" /\ UNCHANGED <<cls, pos>>

Next == AddRange \/ ToSecond \/ Close(TRUE) \/ Close(FALSE)
Spec == Init /\ [][Next]_vars

-----------------------------------------------------------------------------
ClassOk == (mode = "class" /\ cls # <<>>) =>
             /\ WellFormed(cls) /\ CmpExact(cls) /\ NoLostExceptions(cls) /\ KindSound(cls)
StateOk == mode = "done" =>
             /\ CanErrorExact(edges)
             /\ CanErrorExact(<<edges[1]>>)
             /\ MergeExact(edges[1], edges[2])

EmitClass == (mode = "class" /\ cls # <<>>) =>
   PrintT(<<"EDGE", ToJson([cls |-> cls, cmp |-> ImplWithCmp(cls), ops |-> [i \in 1..Len(ImplWithCmp(cls)) |-> CountOps(ImplWithCmp(cls)[i])],
                            kind1 |-> Kind(cls, 1), kind3 |-> Kind(cls, 3), n |-> Cardinality(Members(cls))])>>)
EmitState == mode = "done" =>
   PrintT(<<"STATE", ToJson([edges |-> edges, canError |-> CanError(edges), merged |-> Merge(edges[1], edges[2])])>>)
=============================================================================
