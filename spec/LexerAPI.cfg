SPECIFICATION Spec
VIEW view
CHECK_DEADLOCK FALSE
INVARIANTS
  SpanInv
  EmitReplay
