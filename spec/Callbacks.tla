----------------------------- MODULE Callbacks -----------------------------
(* C13: callback results map to lexer output as the documented table states;   *)
(* Skip is transparent; bytes bumped inside a callback extend the current      *)
(* item and are excluded from the next.                                        *)
(*                                                                             *)
(* The reference lexer of module Ref, extended by Decide: what the callback    *)
(* attached to the winning leaf returns for a match, a PURE function of the    *)
(* match length (sel = len % 4), implemented identically by the subject        *)
(* callbacks (harness/subj-template/src/cb.rs).  TLC enumerates inputs like    *)
(* LexSpec, checks SkipTransparent on twin definitions, and prints the         *)
(* expected item sequence and the expected callback invocation list of every   *)
(* behaviour for replay on all lexer builds.                                   *)
EXTENDS Ref, TLC, Json, IOUtils

Defs   == ndJsonDeserialize(IOEnv.DEFS)
MaxLen == atoi(IOEnv.MAXLEN)
PMax   == atoi(IOEnv.PMAX)        \* partial lexers run on the inputs of up to PMax characters

ErrDefault(D) == IF D.errcb THEN "FromCb" ELSE "Default"
Num(n) == ToString(n)

(* [act, name, end] for a match [p, e) of leaf l *)
Decide(D, src, l, p, e) ==
  LET len   == e - p
      sel   == len % 4
      k     == D.cbk[l]
      v     == D.vname[l]
      emitu == [act |-> "emit", name |-> v, end |-> e]
      emitv == [act |-> "emit", name |-> v \o "(" \o Num(len) \o ")", end |-> e]
      emitw(k2) == [act |-> "emit", name |-> v \o "(" \o Num(len + k2) \o ")", end |-> e]
      alt   == [act |-> "emit", name |-> "Alt", end |-> e]
      skip  == [act |-> "skip", name |-> "", end |-> e]
      errd  == [act |-> "err", name |-> ErrDefault(D), end |-> e]
      errc  == [act |-> "err", name |-> "Custom(" \o Num(sel) \o ")", end |-> e]
      \* bump(one more character, when there is one) BEFORE the callback returns: the bumped bytes belong to the
      \* current item whatever the callback then decides (emit, error, skip) and the next attempt starts behind them
      be    == IF e < Len(src) THEN RoundUp(D, src, e + 1) ELSE e
      B(x)  == [x EXCEPT !.end = be]
  IN CASE k = ""              -> IF IsSkip(D, l) THEN skip ELSE emitu
       [] k = "unit_unit"     -> emitu
       [] k = "unit_bool"     -> IF sel % 2 = 0 THEN emitu ELSE errd
       [] k = "unit_skip"     -> skip
       [] k = "unit_res_skip" -> IF sel < 2 THEN skip ELSE errc
       [] k = "unit_filter"   -> IF sel % 2 = 0 THEN emitu ELSE skip
       [] k = "val_t"         -> emitv
       [] k = "val_opt"       -> IF sel % 2 = 0 THEN emitv ELSE errd
       \* inline closures whose body starts with a group and goes on after it: the value is that of the WHOLE body
       [] k = "val_t_paren"   -> emitw(100)          \* |lex| (val_t(lex)) + 100
       [] k = "val_t_brace"   -> emitw(200)          \* |lex| { val_t(lex) } + 200
       [] k = "val_t_index"   -> emitw(300)          \* |lex| [val_t(lex), 7][0] + 300
       [] k = "val_t_tuple"   -> [act |-> "emit", name |-> v \o "((" \o Num(len) \o ", 7))", end |-> e]   \* |lex| (val_t(lex), 7u8): the body is one parenthesised group, a tuple
       [] k = "val_t_match"   -> emitw(400)          \* |lex| match val_t(lex) { n => n } + 400
       [] k = "val_t_if"      -> emitw(500)          \* |lex| if true { val_t(lex) } else { 0 } + 500
       [] k = "val_t_mcall"   -> emitw(600)          \* |lex| match val_t(lex) { n => n }.wrapping_add(600)
       [] k = "unit_bool_and" -> errd                \* |lex| (unit_bool(lex)) && false
       [] k = "unit_bool_or"  -> emitu               \* |lex| { unit_bool(lex) } || true
       [] k = "val_res"       -> IF sel < 2 THEN emitv ELSE errc
       [] k = "val_filter"    -> IF sel % 2 = 0 THEN emitv ELSE skip
       [] k = "val_fr"        -> IF sel < 2 THEN emitv ELSE IF sel = 2 THEN skip ELSE errc
       [] k = "val_bump"      -> [emitv EXCEPT !.end = IF e < Len(src) THEN RoundUp(D, src, e + 1) ELSE e]
       [] k = "bump_skip"     -> B(skip)
       [] k = "bump_bool"     -> IF sel % 2 = 0 THEN B(emitu) ELSE B(errd)
       [] k = "bump_res"      -> IF sel < 2 THEN B(emitv) ELSE B(errc)
       [] k = "bump_filter"   -> IF sel % 2 = 0 THEN B(emitu) ELSE B(skip)
       [] k = "skipcb_bump"   -> B(skip)
       [] k = "skip_unit"     -> skip
       [] k = "skip_skip"     -> skip
       [] k = "skip_res_unit" -> IF sel < 3 THEN skip ELSE errc
       [] k = "skip_res_skip" -> IF sel < 3 THEN skip ELSE errc
       [] k = "any_tok"       -> IF sel % 2 = 0 THEN emitu ELSE alt
       [] k = "any_res"       -> IF sel = 0 THEN emitu ELSE IF sel = 1 THEN alt ELSE errc
       [] k = "any_filter"    -> IF sel = 0 THEN emitu ELSE IF sel = 2 THEN alt ELSE skip
       [] k = "any_fr"        -> IF sel = 0 THEN emitu ELSE IF sel = 1 THEN alt ELSE IF sel = 2 THEN skip ELSE errc

(* the whole run from offset p: items and the callback invocation log *)
(* partial: src is only a prefix of the input (Lexer::new_partial).  The run ends at the first None; a callback  *)
(* runs only for a match that is committed, so the invocation log of a prefix run is what it is for the one-shot *)
(* run up to that point (PartialIsPrefix below).                                                                  *)
RECURSIVE RunCb(_, _, _, _, _, _, _)
RunCb(D, src, partial, p, istart, items, log) ==
  LET a == TLCEval(RefAttempt(D, src, partial, p)) IN
  IF a.k = "none" THEN [items |-> Append(items, <<"none", "", p, p>>), log |-> log]
  ELSE IF a.k = "err"
       THEN RunCb(D, src, partial, TLCEval(a.end), TLCEval(a.end), TLCEval(Append(items, <<"err", ErrDefault(D), p, a.end>>)), log)
  ELSE LET dec  == TLCEval(Decide(D, src, a.leaf, p, a.end))
           log2 == TLCEval(IF D.cbk[a.leaf] = "" THEN log ELSE Append(log, <<p, a.end>>))
       IN IF dec.act = "skip" THEN RunCb(D, src, partial, TLCEval(dec.end), TLCEval(dec.end), items, log2)
          ELSE RunCb(D, src, partial, TLCEval(dec.end), TLCEval(dec.end),
                     TLCEval(Append(items, <<IF dec.act = "emit" THEN "ok" ELSE "err", dec.name, p, dec.end>>)), log2)

VARIABLES d, phase, chars, src, partial
vars == <<d, phase, chars, src, partial>>
D == Defs[d]
Sel == {i \in 1..Len(Defs) : Defs[i].role = "cb" /\ Defs[i].accepted /\ Defs[i].refsOk /\ Len(Defs[i].chars) > 0}

Init == d \in Sel /\ phase = "build" /\ chars = <<>> /\ src = <<>> /\ partial = FALSE
Extend(c) == /\ phase = "build" /\ Len(chars) < MaxLen
             /\ chars' = Append(chars, c) /\ src' = src \o D.chars[c]
             /\ UNCHANGED <<d, phase, partial>>
Begin == phase = "build" /\ phase' = "run" /\ partial' \in (IF Len(chars) <= PMax THEN BOOLEAN ELSE {FALSE}) /\ UNCHANGED <<d, chars, src>>
Next == Begin \/ \E c \in 1..Len(D.chars) : Extend(c)
Spec == Init /\ [][Next]_vars

(* a skipping callback leaves the stream identical to that of the same definition with those   *)
(* bytes consumed by a skip pattern (D.twin)                                                   *)
RECURSIVE Flat2(_, _)
Flat2(DD, cs) == IF cs = <<>> THEN <<>> ELSE DD.chars[Head(cs)] \o Flat2(DD, Tail(cs))
SkipTransparent ==
  (phase = "run" /\ D.twin # 0) =>
     RunCb(D, src, partial, 0, 0, <<>>, <<>>).items = RunCb(Defs[D.twin], Flat2(Defs[D.twin], chars), partial, 0, 0, <<>>, <<>>).items

(* C07 x C13: what a partial lexer over this text commits before its first None - items AND callback invocations -  *)
(* is a leading run of what the ordinary lexer produces on the same text, unless a callback looked beyond the     *)
(* match itself (the bump kinds read remainder(), which in a prefix buffer is shorter).                           *)
IsPrefixOf(a, b) == Len(a) <= Len(b) /\ \A i \in 1..Len(a) : a[i] = b[i]
Front(s) == SubSeq(s, 1, Len(s) - 1)
LooksAhead(DD) == \E l \in 1..DD.nL : DD.cbk[l] \in {"val_bump", "bump_skip", "bump_bool", "bump_res", "bump_filter", "skipcb_bump"}
PartialIsPrefix ==
  (phase = "run" /\ partial /\ ~LooksAhead(D)) =>
     LET pr == RunCb(D, src, TRUE, 0, 0, <<>>, <<>>)
         fr == RunCb(D, src, FALSE, 0, 0, <<>>, <<>>)
     IN IsPrefixOf(Front(pr.items), Front(fr.items)) /\ IsPrefixOf(pr.log, fr.log)

Emit == phase = "run" =>
          LET r == RunCb(D, src, partial, 0, 0, <<>>, <<>>) IN
          PrintT(<<"CBRUN", ToJson([d |-> d, chars |-> chars, partial |-> partial, items |-> r.items, log |-> r.log])>>)
=============================================================================
