SPECIFICATION Spec
CHECK_DEADLOCK FALSE
INVARIANTS
  Progress
  Ordered
  Gaps
  EndsAtLen
  Boundaries
  ChunkedEqualsOneShot
  EmitRun
PROPERTIES
  Variant
  Terminates
