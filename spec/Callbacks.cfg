SPECIFICATION Spec
CHECK_DEADLOCK FALSE
INVARIANTS
  SkipTransparent
  PartialIsPrefix
  Emit
