SPECIFICATION Spec
CHECK_DEADLOCK FALSE
POSTCONDITION Accepted
