SPECIFICATION Spec
VIEW view
CHECK_DEADLOCK FALSE
INVARIANTS
  TLive
  TExact
  TMunch
  TMunchAbs
  TMunchEoi
  TRoot
  TProg
  TNullable
  TUtf8
  TTie
  TPartSafe
  TPartPrompt
  EmitReplay
