------------------------------ MODULE GenTrace ------------------------------
(* C16: code generation is deterministic.                                      *)
(* Trace specification over events recorded from the REAL generator running    *)
(* on several threads of several processes (each HashMap gets a fresh          *)
(* RandomState) for both code generators:                                      *)
(*   {"def": id, "cfg": "tc"|"sm", "out": digest of generate()'s output,       *)
(*    "graph": digest of the captured final graph, "strip": digest of          *)
(*    strip_attributes' output, "pid": .., "thread": ..}                       *)
(* The specification: generated[def, cfg] may be set once; every later event   *)
(* for the same key must carry the same digests.                               *)
EXTENDS Naturals, Sequences, TLC, Json, IOUtils

Rec == ndJsonDeserialize(IOEnv.TRACE)

VARIABLES l, generated
vars == <<l, generated>>

Key(e) == <<e.def, e.cfg>>
Val(e) == <<e.out, e.graph, e.strip>>

Init == l = 1 /\ generated = [k \in {} |-> <<>>]

First == /\ l <= Len(Rec)
         /\ Key(Rec[l]) \notin DOMAIN generated
         /\ generated' = [k \in DOMAIN generated \cup {Key(Rec[l])} |-> IF k = Key(Rec[l]) THEN Val(Rec[l]) ELSE generated[k]]
         /\ l' = l + 1

Again == /\ l <= Len(Rec)
         /\ Key(Rec[l]) \in DOMAIN generated
         /\ generated[Key(Rec[l])] = Val(Rec[l])          \* byte-identical output, graph and stripped enum
         /\ UNCHANGED generated
         /\ l' = l + 1

Next == First \/ Again
Spec == Init /\ [][Next]_vars

Accepted ==
  LET n == TLCGet("stats").diameter - 1 IN
  IF n = Len(Rec) THEN TRUE
  ELSE /\ PrintT(<<"REJECT", ToJson([at |-> n + 1, event |-> Rec[n + 1]])>>)
       /\ FALSE
=============================================================================
