------------------------------ MODULE Compile ------------------------------
(* The graph passes of logos-codegen's Graph::new, transcribed:                 *)
(*                                                                              *)
(*   raw --MarkEarly--> early --RemoveLate--> late --Prune--> prune --Dedup--> final *)
(*                                                                              *)
(* and checked, pass by pass, against the snapshots the hook takes after every   *)
(* pass while the REAL derive runs (D.stages).  This is conformance at the       *)
(* implementation level: a mismatch localises a change to one pass (reported as  *)
(* SPEC-DRIFT); whether the lexing function is preserved is decided separately    *)
(* by Attempt.tla on every snapshot and on the final graph.                      *)
(*                                                                              *)
(* A graph is [root, n, early, accept, eoi, edge] with edge[s][x] over byte       *)
(* blocks (0 = no edge), exactly as exported for Attempt.tla.                    *)
EXTENDS Naturals, Sequences, FiniteSets, TLC, Json, IOUtils

Defs == ndJsonDeserialize(IOEnv.DEFS)

VARIABLE d
D == Defs[d]
NB == D.nB

Stage(name) == LET S == {i \in 1..Len(D.stages) : D.stages[i].stage = name} IN D.stages[CHOOSE i \in S : TRUE]
HasStages == d # 0 /\ \A name \in {"raw", "early", "late", "prune", "final"} : \E i \in 1..Len(D.stages) : D.stages[i].stage = name
Plain(G) == [root |-> G.root, n |-> G.n, early |-> G.early, accept |-> G.accept, eoi |-> G.eoi, edge |-> G.edge]

States(G) == 1..G.n
Children(G, s) == ({G.edge[s][x] : x \in 1..NB} \cup {G.eoi[s]}) \ {0}
Preds(G, s) == {p \in States(G) : s \in Children(G, p)}
CanError(G, s) == \E x \in 1..NB : G.edge[s][x] = 0

(* "Find early accept states": a state that cannot fail and all of whose children (byte and EOI)  *)
(* accept the same leaf matches that leaf one byte earlier.                                       *)
MarkEarly(G) ==
  [G EXCEPT !.early = [s \in States(G) |->
      IF ~CanError(G, s) /\ Cardinality({G.accept[c] : c \in Children(G, s)}) = 1
      THEN (CHOOSE l \in {G.accept[c] : c \in Children(G, s)} : TRUE)
      ELSE 0]]

(* "Remove late matches when all incoming edges contain the early match" *)
RemoveLate(G) ==
  [G EXCEPT !.accept = [s \in States(G) |->
      IF G.accept[s] # 0 /\ \A p \in Preds(G, s) : G.early[p] = G.accept[s] THEN 0 ELSE G.accept[s]]]

(* "Prune dead ends": keep the states that can reach a state with a mark, and the root *)
RECURSIVE BackClosure(_, _)
BackClosure(G, S) == LET T == S \cup UNION {Preds(G, s) : s \in S} IN IF T = S THEN S ELSE BackClosure(G, T)

Rank(S, s) == Cardinality({t \in S : t <= s})
Nth(S, k) == CHOOSE s \in S : Rank(S, s) = k

(* keep exactly the states of K (renumbered in ascending order), after mapping every reference through f *)
Restrict(G, K, f) ==
  LET to(t) == IF t = 0 \/ f[t] \notin K THEN 0 ELSE Rank(K, f[t])
      old(k) == Nth(K, k)
      m == Cardinality(K)
  IN [root   |-> Rank(K, f[G.root]),
      n      |-> m,
      early  |-> [k \in 1..m |-> G.early[old(k)]],
      accept |-> [k \in 1..m |-> G.accept[old(k)]],
      eoi    |-> [k \in 1..m |-> to(G.eoi[old(k)])],
      edge   |-> [k \in 1..m |-> [x \in 1..NB |-> to(G.edge[old(k)][x])]]]

Id(G) == [s \in States(G) |-> s]

(* The root always stays; when it cannot reach a mark (no pattern can ever match) it is a dead end like the  *)
(* others and keeps no edges, not even to itself.                                                          *)
Prune(G) ==
  LET marked == {s \in States(G) : G.early[s] # 0 \/ G.accept[s] # 0}
      alive  == BackClosure(G, marked)
      G1     == IF G.root \in alive THEN G
                ELSE [G EXCEPT !.edge[G.root] = [x \in 1..NB |-> 0], !.eoi[G.root] = 0]
  IN Restrict(G1, alive \cup {G.root}, Id(G))

(* "Deduplicate states based on their edges", to a fixpoint: a duplicate is rewritten to the first *)
(* state with the same data                                                                         *)
Key(G, s) == <<G.early[s], G.accept[s], G.edge[s], G.eoi[s]>>
Canon(G) == [s \in States(G) |-> CHOOSE t \in States(G) : Key(G, t) = Key(G, s) /\ \A q \in States(G) : Key(G, q) = Key(G, s) => t <= q]

RECURSIVE Dedup(_)
Dedup(G) ==
  LET c  == Canon(G)
      K  == {s \in States(G) : c[s] = s}
      G2 == Restrict(G, K, c)
  IN IF G2.n = G.n THEN G2 ELSE Dedup(G2)

-----------------------------------------------------------------------------
(* the definition is chosen by two transitions (bucket, then definition): TLC evaluates initial    *)
(* states and the successors of one state on a single thread, buckets spread the work over workers *)
VARIABLE b
vars == <<d, b>>
Sel == {i \in 1..Len(Defs) : Defs[i].hasGraph /\ Len(Defs[i].stages) > 0}
Init == d = 0 /\ b = 0
Next == \/ (b = 0 /\ b' \in 1..16 /\ d' = 0)
        \/ (b # 0 /\ d = 0 /\ d' \in {i \in Sel : i % 16 = b - 1} /\ b' = b)
Spec == Init /\ [][Next]_vars

Report(pass, ok) == ok \/ PrintT(<<"PASSDIFF", ToJson([d |-> d, pass |-> pass])>>)

EarlyPass == (d # 0 /\ HasStages) => Report("early", MarkEarly(Plain(Stage("raw"))) = Plain(Stage("early")))
LatePass  == HasStages => Report("late",  RemoveLate(Plain(Stage("early"))) = Plain(Stage("late")))
PrunePass == (d # 0 /\ HasStages) => Report("prune", Prune(Plain(Stage("late"))) = Plain(Stage("prune")))
DedupPass == (d # 0 /\ HasStages) => Report("dedup", Dedup(Plain(Stage("prune"))) = Plain(Stage("final")))
=============================================================================
