SPECIFICATION Spec
CHECK_DEADLOCK FALSE
INVARIANTS
  LiteralNotBeaten
  Emit
