SPECIFICATION Spec
CHECK_DEADLOCK FALSE
INVARIANTS
  BoundsRule
  Emit
