------------------------------- MODULE Derive -------------------------------
(* C19: for ANY enum input the derive terminates and either generates an       *)
(* implementation or emits compile_error diagnostics; it never panics, and     *)
(* definitions it cannot implement faithfully are rejected.                    *)
(*                                                                             *)
(* The input space is a bounded grammar of enum sources: one variant under     *)
(* test (shape x attribute form), an optional second variant, and enum-level   *)
(* #[logos(...)] forms.  Verdict is the specification: Accept iff every        *)
(* feature is well-formed and implementable.  TLC enumerates the whole         *)
(* product and prints each input with its verdict; the harness renders the     *)
(* source text, runs the real derive as a library (under catch_unwind) and,    *)
(* for a sample, as a real proc macro under rustc.                             *)
EXTENDS Naturals, Sequences, FiniteSets, TLC, Json

Shapes == {"unit", "field1", "named", "tuple0", "field2"}

AttrForms == {"tok_ok", "rx_ok", "rx_cb_ok", "rx_greedy_allowed", "no_attr", "two_attrs_ok",
              \* not implementable faithfully
              "rx_nullable", "rx_nullable_prio", "rx_nullable_alt_prio", "tok_empty", "tok_empty_prio", "rx_nullable_sub", "rx_only_look", "rx_lookstart", "rx_wordb_start",
              "rx_greedy", "rx_greedy_class", "rx_undef_sub", "rx_uni_wordb",
              \* greedy dot inside a repeated / capturing group; patterns whose only match is the empty string
              "rx_greedy_nested", "rx_greedy_capture", "rx_only_empty", "rx_only_empty_alt", "rx_only_empty_neg",
              \* not UTF-8 (implementable only with utf8 = false)
              "rx_nonutf8", "tok_nonutf8", "tok_b80_icase", "rx_b80", "tok_b7f80_icase",
              \* unsupported / malformed regex
              "rx_lookahead", "rx_backref", "rx_badsyntax",
              \* malformed attribute
              "dup_prio", "dup_cb", "dup_cb_named", "unknown_arg", "bad_lit_int", "bad_lit_ident", "prio_notint", "cb_bad",
              "ignore_bad", "ignore_ascii", "empty_attr", "attr_no_parens", "greedy_notbool", "two_positional",
              \* well-formed corner cases: a pattern that matches nothing, callbacks whose body starts with a group
              "rx_never", "rx_cb_paren_tail", "rx_cb_brace_tail", "rx_cb_bracket_tail", "rx_cb_bracket_only",
              \* closure bodies that are one parenthesised group (a tuple / the unit value), or that start with a block-like
              \* expression (match, if, unsafe) and either end with it or go on after it
              "rx_cb_tuple_only", "rx_cb_unit_parens", "rx_cb_match_only", "rx_cb_match_tail", "rx_cb_if_only", "rx_cb_if_tail",
              "rx_cb_match_method", "rx_cb_unsafe_only", "rx_cb_neg", "rx_cb_ref_tuple", "rx_cb_closure_call",
              \* a callback that is no expression / a closure with a declared return type (its body is no block content)
              "rx_cb_ret_type", "cb_garbage_label",
              \* rejected definitions whose DIAGNOSTIC quotes a long pattern of multi-byte characters (every alignment of the
              \* characters relative to a byte count): an empty-matching pattern, two patterns tied at one priority
              "rx_nullable_long0", "rx_nullable_long1", "rx_nullable_long2", "rx_nullable_long3",
              "rx_conflict_long0", "rx_conflict_long1", "rx_conflict_long2", "rx_conflict_long3"}

EnumForms == {"plain", "extras", "error_ty", "error_cb", "skip_ok", "skip_group", "utf8_false", "utf8_true", "crate_path", "subpattern_ok",
              \* generic enums: lifetimes and type parameters
              "gen_lt", "gen_two_lt_attr", "gen_lt_none", "gen_type_ok", "gen_type_lt_order",
              "gen_two_lt_no_attr", "gen_lt_undeclared", "gen_lt_dup", "gen_type_missing", "gen_type_undeclared", "gen_type_dup",
              \* malformed / duplicated
              "dup_extras", "dup_error", "dup_utf8", "unknown_logos", "logos_no_parens", "bad_utf8_val", "skip_nullable", "skip_bad_lit",
              "skip_nonutf8", "skip_nonutf8_group", "skip_nullable_prio", "skip_greedy", "skip_undef_sub", "skip_lookstart",
              "sub_dup", "sub_bad_name", "sub_undef_ref", "sub_nonutf8", "source_deprecated", "error_attr_variant", "const_generic", "dup_error_cb",
              \* an error callback whose body is a tuple / starts with a block-like expression
              "error_cb_tuple", "error_cb_match_tail",
              \* values that are pasted into the output and are not what they have to be; a crate path given twice;
              \* a concrete type given in terms of a type parameter (itself: the substitution would never end)
              "extras_empty", "error_empty", "crate_literal", "dup_crate", "gen_type_chain", "gen_type_self",
              \* tokens after a `name "literal"` item
              "skip_lit_tail", "skip_lit_tail_lit",
              \* a subpattern source that is not a regex on its own
              "sub_unbalanced", "sub_flag_cut"}

Seconds == {"none", "other_ok", "same_tok", "overlap_same_prio"}

GoodShape(s)  == s \in {"unit", "field1"}
GoodAttr(a, e) ==
  \/ a \in {"tok_ok", "rx_ok", "rx_cb_ok", "rx_greedy_allowed", "no_attr", "two_attrs_ok",
            "rx_never", "rx_cb_paren_tail", "rx_cb_brace_tail", "rx_cb_bracket_tail", "rx_cb_bracket_only",
            "rx_cb_tuple_only", "rx_cb_unit_parens", "rx_cb_match_only", "rx_cb_match_tail", "rx_cb_if_only", "rx_cb_if_tail",
            "rx_cb_match_method", "rx_cb_unsafe_only", "rx_cb_neg", "rx_cb_ref_tuple", "rx_cb_closure_call"}
  \/ (a \in {"rx_nonutf8", "tok_nonutf8", "tok_b80_icase", "rx_b80", "tok_b7f80_icase"} /\ e = "utf8_false")
GoodEnum(e)   == e \in {"error_cb_tuple", "error_cb_match_tail", "plain", "extras", "error_ty", "error_cb", "skip_ok", "skip_group", "utf8_false", "utf8_true", "crate_path", "subpattern_ok",
                         "gen_lt", "gen_two_lt_attr", "gen_lt_none", "gen_type_ok", "gen_type_lt_order"}
(* the second variant conflicts only with a first variant that matches "x" at priority 2 *)
GoodSecond(s, a) == s \in {"none", "other_ok"} \/ a \notin {"tok_ok", "two_attrs_ok"}

Verdict(i) == IF GoodShape(i.shape) /\ GoodAttr(i.attr, i.enum) /\ GoodEnum(i.enum) /\ GoodSecond(i.second, i.attr)
              THEN "accept" ELSE "reject"

(* a named / empty / multi-field variant is only diagnosed through its attributes being processed; *)
(* a variant without any logos attribute and a bad shape is still a bad shape for the derive        *)

VARIABLE inp
Init == inp \in [shape : Shapes, attr : AttrForms, enum : EnumForms, second : Seconds]
Next == UNCHANGED inp
Spec == Init /\ [][Next]_inp

Emit == PrintT(<<"DERIVE", ToJson([inp |-> inp, verdict |-> Verdict(inp)])>>)
=============================================================================
