------------------------------- MODULE Modes -------------------------------
(* C12: a definition lexes valid UTF-8 text the same way in str mode and with *)
(* utf8 = false: same Ok tokens with the same spans, same set of bytes        *)
(* covered by errors.  Spec-level statement over the reference lexer; the     *)
(* two modes differ in the error-span rounding and in nothing else.  The      *)
(* harness replays both variants on the real lexers (engine B) and compares   *)
(* the real outputs with each other as well.                                  *)
(* Defs come in pairs: D.twin = index of the same definition in the other     *)
(* mode (0 = none); both share the alphabet D.chars.                          *)
EXTENDS Ref, TLC, Json, IOUtils

Defs   == ndJsonDeserialize(IOEnv.DEFS)
MaxLen == atoi(IOEnv.MAXLEN)

VARIABLES d, chars, src, phase
vars == <<d, chars, src, phase>>

D  == Defs[d]
D2 == Defs[D.twin]
Sel == {i \in 1..Len(Defs) : Defs[i].mode = "str" /\ Defs[i].twin # 0 /\ Defs[i].accepted /\ Defs[Defs[i].twin].accepted
                             /\ Defs[i].refsOk /\ Defs[Defs[i].twin].refsOk /\ Len(Defs[i].chars) > 0
                             /\ \A k \in 1..Defs[i].nL : ~Defs[i].ref[k].nullable}

Init == d \in Sel /\ chars = <<>> /\ src = <<>> /\ phase = "build"
Extend(c) == /\ phase = "build" /\ Len(chars) < MaxLen
             /\ chars' = Append(chars, c) /\ src' = src \o D.chars[c]
             /\ UNCHANGED <<d, phase>>
Begin == phase = "build" /\ phase' = "run" /\ UNCHANGED <<d, chars, src>>
Next == Begin \/ \E c \in 1..Len(D.chars) : Extend(c)
Spec == Init /\ [][Next]_vars

Oks(items)  == {<<items[k].leaf, items[k].start, items[k].end>> : k \in {j \in 1..Len(items) : items[j].k = "tok"}}
ErrBytes(items) == UNION {items[k].start..(items[k].end - 1) : k \in {j \in 1..Len(items) : items[j].k = "err"}}

(* the twin's blocks may be numbered differently: translate through the byte-level alphabet,     *)
(* the harness guarantees D2.chars[c] spells the same bytes as D.chars[c]                         *)
RECURSIVE Flat2(_)
Flat2(cs) == IF cs = <<>> THEN <<>> ELSE D2.chars[Head(cs)] \o Flat2(Tail(cs))

SameInBothModes ==
  phase = "run" =>
    LET a == RefItems(D, src, FALSE, 0)
        b == RefItems(D2, Flat2(chars), FALSE, 0)
    IN Oks(a) = Oks(b) /\ ErrBytes(a) = ErrBytes(b)
=============================================================================
