------------------------------- MODULE Regex -------------------------------
(* C09: default priorities follow the documented specificity rule.             *)
(*                                                                             *)
(* Regex ASTs over the characters {a, b, e'} (e' is two bytes long):           *)
(*   lit(seq)  cls(set)  cat(x, y)  alt(x, y)  rep(x, min, max|inf)  look      *)
(* Complexity is the documented rule: 2 per literal character and per class,   *)
(* concatenation adds, alternation takes the minimum, repetition multiplies    *)
(* by its minimum count, assertions count zero.  Matches is the textbook       *)
(* definition (structural recursion over splits), used for the "therefore"     *)
(* clause: a literal token (priority 2 x its byte length) is never beaten on   *)
(* its own text by a regex with default priority.                              *)
(* TLC enumerates every AST up to depth 2, checks LiteralNotBeaten on each,    *)
(* and prints it with its Complexity; the harness renders it to regex text,    *)
(* runs the real derive and compares the captured leaf priority.               *)
EXTENDS Naturals, Sequences, FiniteSets, TLC, Json, IOUtils

Depth == atoi(IOEnv.DEPTH)
(* MODE (environment): "str"   - str-mode patterns over {a, b, e'} (e' is one character, two bytes);          *)
(*                     "bytes" - byte-string patterns (utf8 = false) over {a, e', h, f}: e' is the two bytes     *)
(*                               C3 A9, h a TRUNCATED multi-byte sequence (E2 82, not valid UTF-8), f the      *)
(*                               byte FF; every literal byte counts;                                           *)
(*                     "dot"   - str-mode patterns over {a, b, o} with the dot atom (o is matched by dot only) *)
(*                               and lazy repetitions, for the greedy-dot rule of C19.                          *)
Mode == IF "MODE" \in DOMAIN IOEnv THEN IOEnv.MODE ELSE "str"

(*                     "mixed" - str-literal patterns of a utf8 = false lexer over {a, e', x}: x is the byte FF     *)
(*                               written (?-u:\xff) inside the str pattern; a literal character is a character     *)
(*                               or such a byte, each counts once.                                                *)
Chars == CASE Mode = "str" -> {"a", "b", "e"}
           [] Mode = "mixed" -> {"a", "e", "x"}
           [] Mode = "bytes" -> {"a", "e", "h", "f"}
           [] Mode = "dot" -> {"a", "b", "o"}
ByteLenC(c) == IF c \in {"e", "h"} THEN 2 ELSE 1
RECURSIVE ByteLen(_)
ByteLen(w) == IF w = <<>> THEN 0 ELSE ByteLenC(Head(w)) + ByteLen(Tail(w))

(* ASTs are tuples (TLC can only put mutually comparable values into one set):              *)
(*   <<"lit", seq>>  <<"cls", seq>>  <<"cat", x, y>>  <<"alt", x, y>>  <<"rep", x, lo, hi>>  <<"look">> *)
Lit(s)        == <<"lit", s>>
Cls(s)        == <<"cls", s>>
Cat(x, y)     == <<"cat", x, y>>
Alt(x, y)     == <<"alt", x, y>>
Rep(x, lo, hi) == <<"rep", x, lo, hi>>                             \* hi = 99 : unbounded
Lazy(x, lo, hi) == <<"lazy", x, lo, hi>>                           \* the same language, lazy preference
Look          == <<"look">>
Empty         == <<"empty">>                                       \* the empty regex, e.g. a branch of (|x)
Cap(x)        == <<"cap", x>>                                      \* a capturing group: transparent
Dot(k)        == <<"dot", k>>                                      \* any character but newline; k = how it is written
Inf == 99

Atoms == CASE Mode = "str" -> {Lit(<<"a">>), Lit(<<"a", "b">>), Lit(<<"e">>), Lit(<<"e", "a">>),
                               Cls(<<"a", "b">>), Cls(<<"a", "e">>), Cls(<<"a", "b", "e">>), Look, Empty}
           [] Mode = "mixed" -> {Lit(<<"a">>), Lit(<<"e">>), Lit(<<"x">>), Lit(<<"e", "x">>), Lit(<<"x", "e">>), Lit(<<"a", "x">>),
                                 Lit(<<"x", "a">>), Lit(<<"e", "a">>), Cls(<<"a", "e">>), Look, Empty}
           [] Mode = "bytes" -> {Lit(<<"a">>), Lit(<<"e">>), Lit(<<"h">>), Lit(<<"f">>), Lit(<<"h", "a">>), Lit(<<"e", "f">>),
                                 Lit(<<"a", "h">>), Cls(<<"a", "f">>), Look, Empty}
           [] Mode = "dot" -> {Lit(<<"a">>), Cls(<<"a", "b">>), Dot("nl"), Dot("s"), Dot("cls"), Empty}
Bounds == IF Mode = "dot" THEN {<<0, Inf>>, <<1, Inf>>, <<0, 1>>, <<2, 2>>, <<2, Inf>>, <<1, 1>>}
          ELSE {<<0, Inf>>, <<1, Inf>>, <<0, 1>>, <<2, 2>>, <<1, 3>>, <<2, Inf>>, <<0, 0>>, <<3, 3>>}
LazyBounds == IF Mode = "dot" THEN {<<0, Inf>>, <<1, Inf>>} ELSE {}

Level1 == {Cat(x, y) : x \in Atoms, y \in Atoms} \cup {Alt(x, y) : x \in Atoms, y \in Atoms}
          \cup {Rep(x, b[1], b[2]) : x \in Atoms \ {Look, Empty}, b \in Bounds}
          \cup {Lazy(x, b[1], b[2]) : x \in Atoms \ {Look, Empty}, b \in LazyBounds}
          \cup (IF Mode = "dot" THEN {Cap(x) : x \in Atoms \ {Empty}} ELSE {})
Level2 == {Rep(x, b[1], b[2]) : x \in Level1, b \in Bounds}
          \cup {Cat(x, y) : x \in Level1, y \in Atoms} \cup {Cat(x, y) : x \in Atoms, y \in Level1}
          \cup {Alt(x, y) : x \in Level1, y \in Atoms} \cup {Alt(x, y) : x \in Atoms, y \in Level1}
ASTs == Atoms \cup Level1 \cup (IF Depth >= 2 THEN Level2 ELSE {})

Min2(a, b) == IF a < b THEN a ELSE b

T(r) == r[1]
Range(q) == {q[i] : i \in DOMAIN q}

(* Units of a literal: its characters in a str pattern, its bytes in a byte-string pattern (MODE = bytes),  *)
(* whether or not those bytes happen to be valid UTF-8.                                                    *)
Units(w) == IF Mode = "bytes" THEN ByteLen(w) ELSE Len(w)

RECURSIVE Complexity(_)
Complexity(r) ==
  CASE T(r) = "lit"  -> 2 * Units(r[2])
    [] T(r) \in {"cls", "dot"} -> 2
    [] T(r) = "cat"  -> Complexity(r[2]) + Complexity(r[3])
    [] T(r) = "alt"  -> Min2(Complexity(r[2]), Complexity(r[3]))
    [] T(r) \in {"rep", "lazy"} -> r[3] * Complexity(r[2])
    [] T(r) = "cap"  -> Complexity(r[2])
    [] T(r) = "look" -> 0
    [] T(r) = "empty" -> 0

RECURSIVE Matches(_, _), MatchRep(_, _, _, _)
Matches(r, w) ==
  CASE T(r) = "lit"  -> w = r[2]
    [] T(r) = "cls"  -> Len(w) = 1 /\ w[1] \in Range(r[2])
    [] T(r) = "dot"  -> Len(w) = 1
    [] T(r) = "cat"  -> \E k \in 0..Len(w) : Matches(r[2], SubSeq(w, 1, k)) /\ Matches(r[3], SubSeq(w, k + 1, Len(w)))
    [] T(r) = "alt"  -> Matches(r[2], w) \/ Matches(r[3], w)
    [] T(r) \in {"rep", "lazy"} -> MatchRep(r[2], w, r[3], r[4])
    [] T(r) = "cap"  -> Matches(r[2], w)
    [] T(r) = "look" -> w = <<>>          \* an assertion consumes nothing (its truth is over-approximated)
    [] T(r) = "empty" -> w = <<>>
MatchRep(x, w, lo, hi) ==
  \/ (lo = 0 /\ w = <<>>)
  \/ (lo > 0 /\ hi > 0 /\ Matches(x, <<>>) /\ MatchRep(x, w, lo - 1, IF hi = Inf THEN Inf ELSE hi - 1))
  \/ (hi > 0 /\ \E k \in 1..Len(w) : Matches(x, SubSeq(w, 1, k))
                                     /\ MatchRep(x, SubSeq(w, k + 1, Len(w)), IF lo = 0 THEN 0 ELSE lo - 1, IF hi = Inf THEN Inf ELSE hi - 1))

Words == UNION {[1..n -> Chars] : n \in 0..3}

VARIABLE r
Init == r \in ASTs
Next == UNCHANGED r
Spec == Init /\ [][Next]_r

(* the "therefore" clause of C09 *)
LiteralNotBeaten == \A w \in Words : Matches(r, w) => Complexity(r) <= 2 * ByteLen(w)

(* RegexAgree: the textbook meaning of the pattern, as the longest non-empty prefix of every word of at *)
(* most 3 characters that it matches (0 = none).  The harness compares it with what the real lexer does  *)
(* on those words, which cross-checks the component every other specification trusts (regex-syntax /      *)
(* regex-automata as the meaning of a pattern) on the enumerated fragment.                                *)
RECURSIVE HasLookR(_)
HasLookR(x) == CASE T(x) \in {"cat", "alt"} -> HasLookR(x[2]) \/ HasLookR(x[3])
                 [] T(x) \in {"rep", "lazy", "cap"} -> HasLookR(x[2])
                 [] T(x) = "look" -> TRUE
                 [] OTHER -> FALSE
WordSeq == LET S1 == {<<c>> : c \in Chars}
               S2 == {<<c1, c2>> : c1 \in Chars, c2 \in Chars}
               S3 == {<<c1, c2, c3>> : c1 \in Chars, c2 \in Chars, c3 \in Chars}
           IN S1 \cup S2 \cup S3
LongestPrefix(x, w) == LET K == {k \in 1..Len(w) : Matches(x, SubSeq(w, 1, k))} IN
                       IF K = {} THEN 0 ELSE CHOOSE k \in K : \A j \in K : j <= k
Agree(x) == IF HasLookR(x) THEN <<>> ELSE {<<w, LongestPrefix(x, w)>> : w \in WordSeq}

(* C19: "unbounded greedy dot repetitions without allow_greedy are rejected".  A dot is a dot or a          *)
(* character class equivalent to it (its language is exactly the one-character words; o is matched by the    *)
(* dot alone), however it is written; the rule looks through every group, alternation, concatenation and     *)
(* repetition.                                                                                               *)
(* written as a character class: dots and classes combined by alternation (and trivial wrappers)           *)
RECURSIVE ClassLike(_)
ClassLike(x) ==
  CASE T(x) \in {"dot", "cls"} -> TRUE
    [] T(x) = "alt" -> ClassLike(x[2]) /\ ClassLike(x[3])
    [] T(x) = "cap" -> ClassLike(x[2])
    [] T(x) \in {"rep", "lazy"} -> x[3] = 1 /\ x[4] = 1 /\ ClassLike(x[2])
    [] T(x) = "cat" -> (T(x[2]) = "empty" /\ ClassLike(x[3])) \/ (T(x[3]) = "empty" /\ ClassLike(x[2]))
    [] OTHER -> FALSE
DotLang(x) == ClassLike(x) /\ \A w \in Words : Matches(x, w) <=> Len(w) = 1
(* a run of dots: for some length n >= 1 EVERY word of n characters matches (.  ..  .?  .{1,2}  (.)  .|ab): *)
(* repeated without bound it consumes whatever follows, exactly like .+                                     *)
DotRun(x) == DotLang(x) \/ \E n \in 1..2 : \A w \in Words : Len(w) = n => Matches(x, w)
RECURSIVE GreedyAll(_)
GreedyAll(x) ==
  CASE T(x) = "rep"  -> (x[4] = Inf /\ DotRun(x[2])) \/ GreedyAll(x[2])
    [] T(x) \in {"lazy", "cap"} -> GreedyAll(x[2])
    [] T(x) \in {"cat", "alt"} -> GreedyAll(x[2]) \/ GreedyAll(x[3])
    [] OTHER -> FALSE

Emit == PrintT(<<"AST", ToJson([r |-> r, prio |-> Complexity(r), nullable |-> Matches(r, <<>>),
                                lp |-> IF Mode = "str" THEN Agree(r) ELSE <<>>,
                                greedy |-> IF Mode = "dot" THEN GreedyAll(r) ELSE FALSE])>>)
=============================================================================
