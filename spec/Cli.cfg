SPECIFICATION Spec
CHECK_DEADLOCK FALSE
INVARIANTS
  CheckIffCurrent
  EmitStrip
  EmitItem
  EmitFiles
PROPERTIES
  CheckIsReadOnly
