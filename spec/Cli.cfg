SPECIFICATION Spec
CHECK_DEADLOCK FALSE
INVARIANTS
  CheckIffCurrent
  EmitStrip
  EmitFiles
PROPERTIES
  CheckIsReadOnly
