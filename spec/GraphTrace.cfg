SPECIFICATION TSpec
CHECK_DEADLOCK FALSE
POSTCONDITION Accepted
