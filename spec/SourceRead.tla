----------------------------- MODULE SourceRead -----------------------------
(* C05, second sentence: the public Source::read(offset) returns a chunk       *)
(* exactly when offset + SIZE <= len, without overflow, and then holds the     *)
(* bytes at that offset.                                                       *)
(*                                                                             *)
(* usize is modelled as 0..W-1.  ReadUnsafe / ReadSafe follow src/source.rs    *)
(* (checked_add then compare; range construction then slice::get), Ideal is    *)
(* the statement in unbounded arithmetic.  TLC checks the two code-shaped      *)
(* functions against Ideal for every (len, off, n) of the small word and       *)
(* prints every case for replay against the real Source implementations        *)
(* (offsets in the top quarter of the word are mapped to usize::MAX - k).      *)
EXTENDS Naturals, TLC, Json, IOUtils

W == 16
Sizes == {0, 1, 2, 3, 4, 5, 7, 8, 9}     \* 0 stands for the `u8` chunk (SIZE = 1)
SizeOf(n) == IF n = 0 THEN 1 ELSE n

VARIABLES len, off, n
vars == <<len, off, n>>

Init == len \in 0..11 /\ off \in 0..(W - 1) /\ n \in Sizes
Next == UNCHANGED vars
Spec == Init /\ [][Next]_vars

CheckedAdd(a, b) == IF a + b >= W THEN W ELSE a + b      \* W encodes None (overflow)

(* default build: offset.checked_add(SIZE).is_some_and(|end| end <= len) *)
ReadUnsafe == LET e == CheckedAdd(off, SizeOf(n)) IN e # W /\ e <= len
(* forbid_unsafe: bytes.slice(offset..offset.checked_add(SIZE)?)? then from_slice *)
ReadSafe == LET e == CheckedAdd(off, SizeOf(n)) IN e # W /\ off <= e /\ e <= len
Ideal == off + SizeOf(n) <= len

BoundsRule == ReadUnsafe = Ideal /\ ReadSafe = Ideal

Emit == PrintT(<<"READ", ToJson([len |-> len, off |-> off, n |-> n, some |-> Ideal])>>)
=============================================================================
