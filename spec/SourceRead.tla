----------------------------- MODULE SourceRead -----------------------------
(* C05, second sentence: the public Source::read(offset) returns a chunk       *)
(* exactly when offset + SIZE <= len, without overflow, and then holds the     *)
(* bytes at that offset.                                                       *)
(*                                                                             *)
(* usize is modelled as 0..W-1.  ReadUnsafe / ReadSafe follow src/source.rs    *)
(* (checked_add then compare; range construction then slice::get), Ideal is    *)
(* the statement in unbounded arithmetic.  TLC checks the two code-shaped      *)
(* functions against Ideal for every (len, off, n) of the small word and       *)
(* prints every case for replay against the real Source implementations        *)
(* (offsets in the top quarter of the word are mapped to usize::MAX - k).      *)
EXTENDS Naturals, Sequences, FiniteSets, TLC, Json, IOUtils

W == 16
Sizes == {0, 1, 2, 3, 4, 5, 7, 8, 9}     \* 0 stands for the `u8` chunk (SIZE = 1)
SizeOf(n) == IF n = 0 THEN 1 ELSE n

VARIABLES len, off, n,
          text      \* second family of cases: a str as a sequence of characters given by their byte lengths (1..4)
vars == <<len, off, n, text>>

Texts == UNION {[1..k -> 1..4] : k \in 0..3}

Init == \/ (len \in 0..11 /\ off \in 0..(W - 1) /\ n \in Sizes /\ text = <<>>)
        \/ (len = 99 /\ off = 0 /\ n = 0 /\ text \in Texts)
Next == UNCHANGED vars
Spec == Init /\ [][Next]_vars

(* ---- char boundaries of str sources (Source::is_boundary, Source::find_boundary; C04, C15) ---- *)
RECURSIVE Total(_)
Total(t) == IF t = <<>> THEN 0 ELSE Head(t) + Total(Tail(t))
RECURSIVE Bounds(_, _)
Bounds(t, acc) == IF t = <<>> THEN {acc} ELSE {acc} \cup Bounds(Tail(t), acc + Head(t))
IsBoundaryStr(t, i) == i \in Bounds(t, 0)                       \* in particular FALSE beyond the length
FindBoundaryStr(t, i) == CHOOSE b \in Bounds(t, 0) : b >= i /\ \A c \in Bounds(t, 0) : c >= i => b <= c
IsBoundaryBytes(t, i) == i <= Total(t)                          \* [u8]: every index up to the length

BoundaryRec == [text |-> text, total |-> Total(text),
                isb |-> [i \in 0..(Total(text) + 2) |-> IsBoundaryStr(text, i)],
                find |-> [i \in 0..Total(text) |-> FindBoundaryStr(text, i)],
                isbytes |-> [i \in 0..(Total(text) + 2) |-> IsBoundaryBytes(text, i)]]

CheckedAdd(a, b) == IF a + b >= W THEN W ELSE a + b      \* W encodes None (overflow)

(* default build: offset.checked_add(SIZE).is_some_and(|end| end <= len) *)
ReadUnsafe == LET e == CheckedAdd(off, SizeOf(n)) IN e # W /\ e <= len
(* forbid_unsafe: bytes.slice(offset..offset.checked_add(SIZE)?)? then from_slice *)
ReadSafe == LET e == CheckedAdd(off, SizeOf(n)) IN e # W /\ off <= e /\ e <= len
Ideal == off + SizeOf(n) <= len

BoundsRule == len = 99 \/ (ReadUnsafe = Ideal /\ ReadSafe = Ideal)

Emit == IF len = 99 THEN PrintT(<<"BOUNDARY", ToJson(BoundaryRec)>>)
        ELSE PrintT(<<"READ", ToJson([len |-> len, off |-> off, n |-> n, some |-> Ideal])>>)
=============================================================================
