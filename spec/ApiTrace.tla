------------------------------ MODULE ApiTrace ------------------------------
(* Trace validation for the public Lexer API (C14, C15): code -> specification. *)
(*                                                                              *)
(* The driver executes long seeded random call sequences (next, bump, clone,    *)
(* clone_from, morph, spanned, a fresh lexer over a second buffer) on the real  *)
(* lexers and records, after every call, its result and the observation of      *)
(* both slots (span, extras, identity of source(), slice()/remainder() against  *)
(* that buffer).  Every recorded call must be an operation LexerAPI.tla enables *)
(* in the current state, with exactly the recorded result, and must lead to     *)
(* exactly the recorded observation; SpanInv is evaluated in every state.       *)
(* Several runs are concatenated; a "run" event starts the next one.            *)
(* Acceptance: the postcondition on the number of consumed events.              *)
EXTENDS LexerAPI, TLCExt

Rec == ndJsonDeserialize(IOEnv.TRACE)

VARIABLE l        \* number of events consumed
tvars == <<vars, l>>

StartSlots == <<[Empty EXCEPT !.k = "A"], Empty>>

TraceInit == /\ l = 1
             /\ Rec[1].e = "run"
             /\ d = Rec[1].d /\ chars = Rec[1].chars /\ partial = Rec[1].partial
             /\ phase = "run" /\ slots = StartSlots /\ hist = <<>>

Ev == Rec[l + 1]

NewRun == /\ Ev.e = "run"
          /\ d' = Ev.d /\ chars' = Ev.chars /\ partial' = Ev.partial
          /\ slots' = StartSlots
          /\ UNCHANGED <<phase, hist>>

(* clone_from between two slots that already hold the same lexer: nothing changes (LexerAPI leaves that case out *)
(* of its enumeration because it adds no state)                                                                  *)
IsNoopCloneFrom == /\ Ev.op \in {"k0:1", "k1:0"}
                   /\ Live(1) /\ Live(2) /\ slots[1] = slots[2]

Call == /\ Ev.e = "op"
        /\ \/ /\ IsNoopCloneFrom
              /\ Obs(slots) = Ev.obs
              /\ slots' = slots
           \/ /\ ~IsNoopCloneFrom
              /\ \E en \in Enabled :
                    /\ en.o.op = Ev.op
                    /\ en.o.res = Ev.res
                    /\ Obs(en.after) = Ev.obs
                    /\ slots' = en.after
        /\ UNCHANGED <<d, phase, chars, partial, hist>>

TraceNext == /\ l < Len(Rec)
             /\ l' = l + 1
             /\ (NewRun \/ Call)

TraceSpec == TraceInit /\ [][TraceNext]_tvars

(* all events consumed; otherwise print the first one that no enabled operation explains *)
TraceAccepted ==
  LET n == TLCGet("stats").diameter IN
  IF n = Len(Rec) THEN TRUE
  ELSE /\ PrintT(<<"REJECTED", ToJson([at |-> n, event |-> Rec[n + 1]])>>)
       /\ FALSE
=============================================================================
