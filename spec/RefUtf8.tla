------------------------------ MODULE RefUtf8 ------------------------------
(* C04 / C12 acceptance clause: which patterns can match text that is not     *)
(* valid UTF-8?                                                               *)
(* Per pattern, explores the product of its reference automaton with the      *)
(* UTF-8 validity automaton over ALL byte blocks (also invalid ones).  A      *)
(* reporting step taken while the UTF-8 automaton is not in its boundary      *)
(* state means: the text consumed so far is a match and is not valid UTF-8.   *)
(* Such patterns are printed (NONUTF8); a str-mode definition containing one  *)
(* must have been rejected by the derive.                                     *)
EXTENDS Naturals, Sequences, FiniteSets, TLC, Json, IOUtils, Utf8

Defs == ndJsonDeserialize(IOEnv.DEFS)

VARIABLES d, i, s, u, path
view == <<d, i, s, u>>
vars == <<d, i, s, u, path>>

D == Defs[d]
R == D.ref[i]

Init == /\ d \in {k \in 1..Len(Defs) : Defs[k].refsOk /\ Defs[k].nL > 0}
        /\ i \in 1..Defs[d].nL
        /\ s = Defs[d].ref[i].start
        /\ u = 0
        /\ path = <<>>

Next == \E x \in 1..D.nB :
          /\ R.tr[s][x] # 0
          /\ s' = R.tr[s][x]
          /\ u' = IF u = U8Bad THEN U8Bad ELSE U8Step(u, D.u8[x])
          /\ path' = Append(path, x)
          /\ UNCHANGED <<d, i>>

Spec == Init /\ [][Next]_vars

ReportsHere == \/ (R.eoi[s] # 0 /\ R.rep[R.eoi[s]])
               \/ \E x \in 1..D.nB : R.tr[s][x] # 0 /\ R.rep[R.tr[s][x]]

MatchesInvalid == ReportsHere /\ u # 0

Utf8Only == MatchesInvalid => PrintT(<<"NONUTF8", ToJson([d |-> d, leaf |-> i, path |-> path])>>)
=============================================================================
