----------------------------- MODULE GraphTrace -----------------------------
(* Trace validation, code -> specification, IMPLEMENTATION level: every hooked  *)
(* call of a recorded run must be exactly the call the GraphLex model of the    *)
(* generated code makes next (GraphLex is deterministic once the input is       *)
(* fixed).  A rejection here that LexTrace (property level) accepts means the   *)
(* generated code no longer has the shape GraphLex describes (reported as       *)
(* SPEC-DRIFT, not as a violation).                                             *)
EXTENDS GraphLex

TraceLog == ndJsonDeserialize(IOEnv.TRACE)

VARIABLE l
tvars == <<vars, l>>

E == TraceLog[l]

TInit == /\ l = 1
         /\ d = 1 /\ partial = FALSE /\ phase = "run" /\ chars = <<>> /\ src = <<>>
         /\ pc = "idle" /\ st = 0 /\ off = 0 /\ ctx = 0 /\ tstart = 0 /\ tend = 0
         /\ callStart = 0 /\ attStart = 0 /\ lastOff = 0 /\ maxEnd = 0 /\ nreads = 0
         /\ res = NoRes /\ ev = NoEv /\ bad = FALSE

TRun == /\ l <= Len(TraceLog) /\ E.e = "run"
        /\ d' = E.d /\ src' = E.src /\ partial' = E.partial
        /\ phase' = "run" /\ chars' = <<>>
        /\ pc' = "idle" /\ st' = 0 /\ off' = 0 /\ ctx' = 0 /\ tstart' = 0 /\ tend' = 0
        /\ callStart' = 0 /\ attStart' = 0 /\ lastOff' = 0 /\ maxEnd' = 0 /\ nreads' = 0
        /\ res' = NoRes /\ ev' = NoEv /\ bad' = FALSE
        /\ l' = l + 1

EvMatches(m, x) ==
  IF m.e # x.e THEN FALSE
  ELSE CASE m.e = "next"   -> m.start = x.start
         [] m.e = "read"   -> m.off = x.off /\ m.n = x.n /\ m.some = x.some
         [] m.e = "end"    -> m.off = x.off
         [] m.e = "endb"   -> m.off = x.off /\ m.res = x.res
         [] m.e = "trivia" -> m.start = x.start
         [] m.e = "ret"    -> TRUE
         [] OTHER          -> FALSE

RetMatches(r, x) == /\ r.k = x.k /\ r.s = x.s /\ r.t = x.t
                    /\ (r.k = "tok" => D.vname[r.leaf] = x.name)

TStep == /\ l <= Len(TraceLog) /\ E.e # "run"
         /\ Step
         /\ EvMatches(ev', E)
         /\ (E.e = "ret" => RetMatches(res', E))
         /\ l' = l + 1

TNext == TRun \/ TStep
TSpec == TInit /\ [][TNext]_tvars

Accepted ==
  LET n == TLCGet("stats").diameter - 1 IN
  IF n = Len(TraceLog) THEN TRUE
  ELSE /\ PrintT(<<"REJECT", ToJson([at |-> n + 1, event |-> IF n + 1 <= Len(TraceLog) THEN TraceLog[n + 1] ELSE [e |-> "eof"]])>>)
       /\ FALSE
=============================================================================
