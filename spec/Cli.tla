-------------------------------- MODULE Cli --------------------------------
(* C17: logos-cli prints the input enum with exactly the logos / token / regex  *)
(* attributes and the Logos derive removed, followed by the implementation the  *)
(* derive generates; with --output, --check succeeds iff the file already      *)
(* holds that output (line endings ignored) and never modifies it.             *)
(*                                                                             *)
(* Part 1, Strip: an abstract enum source = derive lists + other attributes +  *)
(* logos attributes in various positions; StripDerives is the specification    *)
(* of what must remain.  Part 2, Files: a state machine over the output file   *)
(* {absent, current, crlf, eol, stale} with the operations write / check /     *)
(* five kinds of damage / crlf / addeol / delete; TLC enumerates every history up to MAXOPS and       *)
(* prints the expected exit status and file state after every step.            *)
EXTENDS Naturals, Sequences, FiniteSets, TLC, Json, IOUtils

MaxOps == atoi(IOEnv.MAXOPS)

Deriv == {"Debug", "Logos", "Clone", "serde::Serialize", "logos::Logos", "::logos::Logos", "::core::fmt::Debug"}
IsLogos(x) == x \in {"Logos", "logos::Logos", "::logos::Logos"}

Injective(s) == \A i, j \in DOMAIN s : i # j => s[i] # s[j]
Lists == UNION {{s \in [1..n -> Deriv] : Injective(s)} : n \in 1..3}

RECURSIVE Keep(_)
Keep(s) == IF s = <<>> THEN <<>> ELSE (IF IsLogos(Head(s)) THEN <<>> ELSE <<Head(s)>>) \o Keep(Tail(s))

(* sep: entries separated by ", " or by "," alone (a comma directly followed by `::` is lexed differently) *)
(* eol: line endings of the source file; rustc reads a CRLF line break as \n also inside the multi-line     *)
(*      string literal of the body, so the output must not depend on it                                      *)
Sources == [first : Lists, trailing : BOOLEAN, sep : {"spaced", "tight"}, eol : {"lf", "crlf"}, second : {<<>>, <<"Debug">>, <<"Logos">>, <<"PartialEq", "Logos">>},
            extras : {"none", "doc_repr_before", "cfg_attr_after", "allow_between"},
            nlogos : 0..2]

(* what must remain of the derive attributes (an emptied list stays as `derive()`) *)
StripDerives(s) == <<Keep(s.first)>> \o (IF s.second = <<>> THEN <<>> ELSE <<Keep(s.second)>>)

(* Part 1b, Item: the rest of the enum item.  Attributes are abstract names; "logos", "token" and "regex" are the  *)
(* ones that must go, every other one stays where it is and in the same order: doc comments, attributes of other    *)
(* derives (serde), and attributes whose names merely START like the removed ones (token_kind, logos_ext).          *)
(* vattrs: the attributes of one variant in source order; eattrs: attributes of the enum between the derive and the *)
(* `enum` keyword; field: what the variant carries (a tuple field, a tuple field with an attribute of its own, an    *)
(* explicit discriminant); vis / gen: visibility and generics (lifetime, type parameter with a bound, where clause), *)
(* which must be printed as they are.                                                                                *)
AttrName == {"token", "regex", "serde", "token_kind", "logos_ext"}
IsLogosAttr(a) == a \in {"logos", "token", "regex"}
AttrSeqs == UNION {[1..n -> AttrName] : n \in 0..3}
RECURSIVE KeepAttrs(_)
KeepAttrs(s) == IF s = <<>> THEN <<>> ELSE (IF IsLogosAttr(Head(s)) THEN <<>> ELSE <<Head(s)>>) \o KeepAttrs(Tail(s))
Items == [vis : {"pub", "priv", "crate"}, gen : {"none", "lt", "ty", "ty_where"}, vattrs : AttrSeqs,
          field : {"unit", "tuple", "tuple_attr", "disc"},
          eattrs : {<<"logos">>, <<"logos", "serde">>, <<"serde", "logos">>, <<"logos", "logos_ext", "logos">>, <<"token_kind", "logos">>}]
\* nothing but the three kinds is removed, and what remains keeps its order
KeepIsExact == \A s \in AttrSeqs : /\ \A i \in 1..Len(KeepAttrs(s)) : ~IsLogosAttr(KeepAttrs(s)[i])
                                   /\ Len(KeepAttrs(s)) = Cardinality({i \in 1..Len(s) : ~IsLogosAttr(s[i])})

ASSUME KeepIsExact

-----------------------------------------------------------------------------
VARIABLES mode,   \* "strip" | "item" | "files"
          src,    \* part 1: the source record
          file,   \* part 2: state of the output file
          hist    \* part 2: <<op, exit, file after>> so far

vars == <<mode, src, file, hist>>

(* The environment's ways of changing the file.  "tamper" appends a line, "cutline" keeps only the    *)
(* first line (the output has several: a string literal of the enum contains a line break), "chop"    *)
(* drops the last bytes, "flip" overwrites one byte in the middle, "empty" truncates to length 0:     *)
(* all of them leave a file that does not hold the output.  "crlf" rewrites an exact copy with CRLF   *)
(* line endings and "addeol" appends a final line break to an exact copy: both still hold the output  *)
(* "ignoring line endings".                                                                            *)
Damage == {"tamper", "cutline", "chop", "flip", "empty"}
(* "writef" / "checkf": the same with --format: the output is then the text rustfmt makes of the generated code,  *)
(* and a file is up to date iff it holds THAT text ("fmt"); a file holding the unformatted output is not up to    *)
(* date for --format and vice versa.                                                                               *)
Ops == {"write", "check", "writef", "checkf", "crlf", "addeol", "delete"} \cup Damage
UpToDate == {"current", "crlf", "eol"}

Apply(op, f) ==
  CASE op = "write"  -> [exit |-> 0, file |-> IF f \in UpToDate THEN f ELSE "current"]   \* an up-to-date file (modulo line endings) is left alone
    [] op = "check"  -> [exit |-> IF f \in UpToDate THEN 0 ELSE 1, file |-> f]
    [] op = "writef" -> [exit |-> 0, file |-> "fmt"]
    [] op = "checkf" -> [exit |-> IF f = "fmt" THEN 0 ELSE 1, file |-> f]
    [] op \in Damage -> [exit |-> 0, file |-> IF f = "absent" THEN "absent" ELSE "stale"]
    [] op = "crlf"   -> [exit |-> 0, file |-> IF f = "current" THEN "crlf" ELSE f]
    [] op = "addeol" -> [exit |-> 0, file |-> IF f = "current" THEN "eol" ELSE f]
    [] op = "delete" -> [exit |-> 0, file |-> "absent"]

Init == \/ (mode = "strip" /\ src \in Sources /\ file = "absent" /\ hist = <<>>)
        \/ (mode = "item" /\ src \in Items /\ file = "absent" /\ hist = <<>>)
        \/ (mode = "files" /\ src = [first |-> <<"Debug", "Logos">>, trailing |-> FALSE, sep |-> "spaced", eol |-> "lf", second |-> <<>>, extras |-> "none", nlogos |-> 1]
            /\ file = "absent" /\ hist = <<>>)

Step(op) == /\ mode = "files" /\ Len(hist) < MaxOps
            /\ LET r == Apply(op, file) IN
               /\ file' = r.file
               /\ hist' = Append(hist, <<op, r.exit, r.file>>)
            /\ UNCHANGED <<mode, src>>

Next == \E op \in Ops : Step(op)
Spec == Init /\ [][Next]_vars

(* --check never modifies the file; it succeeds iff the file holds the output *)
CheckIsReadOnly == [][\A op \in Ops : (Step(op) /\ op \in {"check", "checkf"}) => file' = file]_vars
CheckIffCurrent == \A i \in 1..Len(hist) :
                     /\ hist[i][1] = "check" =>
                          (hist[i][2] = 0) = ((IF i = 1 THEN "absent" ELSE hist[i - 1][3]) \in UpToDate)
                     /\ hist[i][1] = "checkf" =>
                          (hist[i][2] = 0) = ((IF i = 1 THEN "absent" ELSE hist[i - 1][3]) = "fmt")

EmitStrip == mode = "strip" => PrintT(<<"STRIP", ToJson([src |-> src, keep |-> StripDerives(src)])>>)
EmitItem  == mode = "item" => PrintT(<<"ITEM", ToJson([src |-> src, vkeep |-> KeepAttrs(src.vattrs), ekeep |-> KeepAttrs(src.eattrs)])>>)
EmitFiles == (mode = "files" /\ Len(hist) = MaxOps) => PrintT(<<"FILES", ToJson([hist |-> hist])>>)
=============================================================================
