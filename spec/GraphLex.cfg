SPECIFICATION Spec
CHECK_DEADLOCK FALSE
INVARIANTS
  Refines
  ReadsOk
  SpanAtReturn
