SPECIFICATION Spec
CHECK_DEADLOCK FALSE
INVARIANTS
  ClassOk
  StateOk
  EmitClass
  EmitState
