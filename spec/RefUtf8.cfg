SPECIFICATION Spec
VIEW view
CHECK_DEADLOCK FALSE
INVARIANTS
  Utf8Only
