------------------------------- MODULE Graph -------------------------------
(* Step semantics of a captured logos graph, shared by Attempt and GraphLex  *)
(* so that the two interpreters cannot disagree.                             *)
(*                                                                           *)
(* A graph record G (exported by the harness from the hook snapshot):        *)
(*   root : 1..n        n : number of states                                 *)
(*   early[s], accept[s] : 0..nLeaves   (0 = none)                           *)
(*   edge[s][x] : 0..n  for block x      eoi[s] : 0..n      (0 = no edge)    *)
(* This mirrors logos-codegen/src/generator: generate_state emits            *)
(*   fast loop over the self edge; record; read a byte; fork; EOI handling.  *)
EXTENDS Naturals, Sequences

GEdge(G, s, x) == G.edge[s][x]
GEoi(G, s)     == G.eoi[s]
GHasEdges(G, s) == \E x \in 1..Len(G.edge[s]) : G.edge[s][x] # 0

(* generate_state: `early` is matched first, so it shadows `accept`.         *)
GRecKind(G, s) == IF G.early[s] # 0 THEN "early"
                  ELSE IF G.accept[s] # 0 THEN "late" ELSE "none"
GRecLeaf(G, s) == IF G.early[s] # 0 THEN G.early[s] ELSE G.accept[s]

(* fork.rs fork_eoi: at the end of a *prefix* buffer the generated code      *)
(* returns None iff the state still has a way on: a byte edge or the EOI     *)
(* edge (the end of a prefix buffer is not the end of input).                *)
GPrefixReturnsNone(G, s) == GHasEdges(G, s) \/ G.eoi[s] # 0

(* Structural shape the generated EOI hop relies on (offset += 1, then the   *)
(* target records end(offset-1) and must stop): T-root.                      *)
GEoiTargetOk(G, s) ==
  LET t == G.eoi[s] IN
  t = 0 \/ (/\ G.accept[t] # 0 /\ G.early[t] = 0
            /\ ~GHasEdges(G, t) /\ G.eoi[t] = 0)
=============================================================================
