------------------------------ MODULE GraphLex ------------------------------
(* The GENERATED CODE, step by step, as an interpreter of a captured graph on    *)
(* explicit inputs.  One action per piece of code the generator emits           *)
(* (logos-codegen/src/generator: generate_state, fast_loop.rs, fork.rs,         *)
(* leaf.rs), and each action is exactly one call of the runtime that the hook   *)
(* records, so that recorded traces can be validated step by step               *)
(* (GraphTrace.tla):                                                            *)
(*                                                                              *)
(*   BeginNext   Iterator::next: token_start := token_end      event next       *)
(*   Loop8       fast loop, read::<&[u8; 8]>(offset)           event read n=8   *)
(*   Loop1       fast loop tail, read::<u8>(offset)            event read n=1   *)
(*   Rec         lex.end(offset) / lex.end(offset - 1)         event end        *)
(*   Fork        read::<u8>(offset) and the transition         event read n=1   *)
(*   PrefixNone  lex.end(lex.offset()); return None            event end        *)
(*   ActErr      end_to_boundary(max(offset, start + 1))       event endb       *)
(*   ActSkip     trivia(); restart at the root                 event trivia     *)
(*   Return      the value next() returns                      event ret        *)
(*                                                                              *)
(* TLC checks on every input up to MAXLEN characters of every corpus            *)
(* definition, in full and in prefix mode:                                      *)
(*   Refines    : what Return yields is what the reference lexer prescribes     *)
(*   ReadsOk    : reads never move backwards within an attempt, their number    *)
(*                is at most 4 * (bytes examined) + 8, Some iff in bounds       *)
(*   SpanAtReturn : token_start <= token_end <= len whenever next() returns     *)
EXTENDS Ref, Graph, TLC, Json, IOUtils

Defs   == ndJsonDeserialize(IOEnv.DEFS)
MaxLen == atoi(IOEnv.MAXLEN)

VARIABLES d, phase, partial, chars, src,
          pc,        \* idle | loop8 | loop1 | rec | fork | pnone | act | ret | done
          st, off, ctx,
          tstart, tend,
          callStart, \* token_start when next() was called
          attStart,  \* start of the current attempt
          lastOff, maxEnd, nreads,
          res,       \* what the current call returns (valid when pc = "ret")
          ev,        \* the hooked call just made
          bad        \* a read rule was broken (set by the read actions)

vars == <<d, phase, partial, chars, src, pc, st, off, ctx, tstart, tend, callStart, attStart, lastOff, maxEnd, nreads, res, ev, bad>>

D == Defs[d]
G == D.g
N == Len(src)
(* definitions with a pattern that matches the empty string must not have been accepted at all (C03 reports  *)
(* them from the capture metadata); they are excluded here, the reference lexer makes no progress on them      *)
Sel == {i \in 1..Len(Defs) : Defs[i].accepted /\ Defs[i].hasGraph /\ Defs[i].refsOk /\ Len(Defs[i].chars) > 0
                             /\ \A k \in 1..Defs[i].nL : ~Defs[i].ref[k].nullable}

HasSelf(s) == \E x \in 1..D.nB : G.edge[s][x] = s
InSelf(s, o) == G.edge[s][src[o + 1]] = s
Marked(s) == G.early[s] # 0 \/ G.accept[s] # 0
EnterPc(s) == IF HasSelf(s) THEN "loop8" ELSE IF Marked(s) THEN "rec" ELSE "fork"
AfterLoopPc(s) == IF Marked(s) THEN "rec" ELSE "fork"
NoEv == [e |-> "none"]
NoRes == [k |-> "none", leaf |-> 0, s |-> 0, t |-> 0]

Init == /\ d \in Sel /\ partial \in BOOLEAN
        /\ phase = "build" /\ chars = <<>> /\ src = <<>>
        /\ pc = "idle" /\ st = 0 /\ off = 0 /\ ctx = 0 /\ tstart = 0 /\ tend = 0
        /\ callStart = 0 /\ attStart = 0 /\ lastOff = 0 /\ maxEnd = 0 /\ nreads = 0
        /\ res = NoRes /\ ev = NoEv /\ bad = FALSE

Fixed == <<d, partial, chars, src>>

Extend(c) == /\ phase = "build" /\ Len(chars) < MaxLen
             /\ chars' = Append(chars, c) /\ src' = src \o D.chars[c]
             /\ UNCHANGED <<d, phase, partial, pc, st, off, ctx, tstart, tend, callStart, attStart, lastOff, maxEnd, nreads, res, ev, bad>>
Begin == /\ phase = "build" /\ phase' = "run"
         /\ UNCHANGED <<d, partial, chars, src, pc, st, off, ctx, tstart, tend, callStart, attStart, lastOff, maxEnd, nreads, res, ev, bad>>

(* bookkeeping shared by the three reading actions: returns the new read-rule verdict *)
ReadBad(o, n) ==
  LET some == o + n <= N
      me   == IF some /\ o + n > maxEnd THEN o + n ELSE maxEnd
      far  == IF o > me THEN o ELSE me
  IN bad \/ o < lastOff \/ o < attStart \/ nreads + 1 > 4 * (far - attStart) + 8
ReadEv(o, n) == [e |-> "read", off |-> o, n |-> n, some |-> (o + n <= N)]
MaxEnd2(o, n) == IF o + n <= N /\ o + n > maxEnd THEN o + n ELSE maxEnd

BeginNext ==
  /\ phase = "run" /\ pc = "idle"
  /\ tstart' = tend /\ callStart' = tend /\ attStart' = tend /\ off' = tend
  /\ ctx' = 0 /\ st' = G.root /\ pc' = EnterPc(G.root)
  /\ lastOff' = tend /\ maxEnd' = tend /\ nreads' = 0
  /\ ev' = [e |-> "next", start |-> tend]
  /\ UNCHANGED <<d, phase, partial, chars, src, tend, res, bad>>

(* first offset in [o, o+8) whose byte leaves the self loop, or o+8 *)
RECURSIVE Scan8(_, _, _)
Scan8(s, o, k) == IF k = 8 THEN o + 8 ELSE IF InSelf(s, o + k) THEN Scan8(s, o, k + 1) ELSE o + k

Loop8 ==
  /\ phase = "run" /\ pc = "loop8"
  /\ ev' = ReadEv(off, 8) /\ bad' = ReadBad(off, 8)
  /\ lastOff' = off /\ maxEnd' = MaxEnd2(off, 8) /\ nreads' = nreads + 1
  /\ IF off + 8 <= N
     THEN LET o2 == Scan8(st, off, 0) IN
          /\ off' = o2
          /\ pc' = IF o2 = off + 8 THEN "loop8" ELSE AfterLoopPc(st)
     ELSE off' = off /\ pc' = "loop1"
  /\ UNCHANGED <<d, phase, partial, chars, src, st, ctx, tstart, tend, callStart, attStart, res>>

Loop1 ==
  /\ phase = "run" /\ pc = "loop1"
  /\ ev' = ReadEv(off, 1) /\ bad' = ReadBad(off, 1)
  /\ lastOff' = off /\ maxEnd' = MaxEnd2(off, 1) /\ nreads' = nreads + 1
  /\ IF off < N /\ InSelf(st, off)
     THEN off' = off + 1 /\ pc' = "loop1"
     ELSE off' = off /\ pc' = AfterLoopPc(st)
  /\ UNCHANGED <<d, phase, partial, chars, src, st, ctx, tstart, tend, callStart, attStart, res>>

Rec ==
  /\ phase = "run" /\ pc = "rec"
  /\ LET e == IF G.early[st] # 0 THEN off ELSE off - 1 IN
     /\ tend' = e
     /\ ev' = [e |-> "end", off |-> e]
  /\ ctx' = GRecLeaf(G, st)
  /\ pc' = "fork"
  /\ UNCHANGED <<d, phase, partial, chars, src, st, off, tstart, callStart, attStart, lastOff, maxEnd, nreads, res, bad>>

Fork ==
  /\ phase = "run" /\ pc = "fork"
  /\ ev' = ReadEv(off, 1) /\ bad' = ReadBad(off, 1)
  /\ lastOff' = off /\ maxEnd' = MaxEnd2(off, 1) /\ nreads' = nreads + 1
  /\ IF off < N
     THEN LET t == G.edge[st][src[off + 1]] IN
          IF t # 0 /\ t # st
          THEN off' = off + 1 /\ st' = t /\ pc' = EnterPc(t) /\ res' = res
          ELSE off' = off /\ st' = st /\ pc' = "act" /\ res' = res
     ELSE IF partial /\ GPrefixReturnsNone(G, st)
          THEN off' = off /\ st' = st /\ pc' = "pnone" /\ res' = res
          ELSE IF st = G.root /\ off = tstart
          THEN off' = off /\ st' = st /\ pc' = "ret" /\ res' = [k |-> "none", leaf |-> 0, s |-> tstart, t |-> tend]
          ELSE IF G.eoi[st] # 0
          THEN off' = off + 1 /\ st' = G.eoi[st] /\ pc' = EnterPc(G.eoi[st]) /\ res' = res
          ELSE off' = off /\ st' = st /\ pc' = "act" /\ res' = res
  /\ UNCHANGED <<d, phase, partial, chars, src, ctx, tstart, tend, callStart, attStart>>

PrefixNone ==
  /\ phase = "run" /\ pc = "pnone"
  /\ tend' = tstart
  /\ ev' = [e |-> "end", off |-> tstart]
  /\ res' = [k |-> "none", leaf |-> 0, s |-> tstart, t |-> tstart]
  /\ pc' = "ret"
  /\ UNCHANGED <<d, phase, partial, chars, src, st, off, ctx, tstart, callStart, attStart, lastOff, maxEnd, nreads, bad>>

ActErr ==
  /\ phase = "run" /\ pc = "act" /\ ctx = 0
  /\ LET o == Max2(off, tstart + 1)
         r == RoundUp(D, src, o)
     IN /\ tend' = r
        /\ ev' = [e |-> "endb", off |-> o, res |-> r]
        /\ res' = [k |-> "err", leaf |-> 0, s |-> tstart, t |-> r]
  /\ pc' = "ret"
  /\ UNCHANGED <<d, phase, partial, chars, src, st, off, ctx, tstart, callStart, attStart, lastOff, maxEnd, nreads, bad>>

ActSkip ==
  /\ phase = "run" /\ pc = "act" /\ ctx # 0 /\ IsSkip(D, ctx)
  /\ tstart' = tend /\ attStart' = tend /\ off' = tend
  /\ ctx' = 0 /\ st' = G.root /\ pc' = EnterPc(G.root)
  /\ lastOff' = tend /\ maxEnd' = tend /\ nreads' = 0
  /\ ev' = [e |-> "trivia", start |-> tend]
  /\ UNCHANGED <<d, phase, partial, chars, src, tend, callStart, res, bad>>

Return ==
  /\ phase = "run"
  /\ \/ pc = "ret" /\ res' = res
     \/ pc = "act" /\ ctx # 0 /\ ~IsSkip(D, ctx) /\ res' = [k |-> "tok", leaf |-> ctx, s |-> tstart, t |-> tend]
  /\ ev' = [e |-> "ret"]
  /\ pc' = IF res'.k = "none" THEN "done" ELSE "idle"
  /\ UNCHANGED <<d, phase, partial, chars, src, st, off, ctx, tstart, tend, callStart, attStart, lastOff, maxEnd, nreads, bad>>

Step == BeginNext \/ Loop8 \/ Loop1 \/ Rec \/ Fork \/ PrefixNone \/ ActErr \/ ActSkip \/ Return
Next == Begin \/ Step \/ \E c \in 1..Len(D.chars) : Extend(c)
Spec == Init /\ [][Next]_vars

-----------------------------------------------------------------------------
(* the generated code refines the reference lexer: every returned item is the prescribed one *)
Refines ==
  (phase = "run" /\ ev.e = "ret") =>
     LET a == RefNext(D, src, partial, callStart) IN
     IF res.k = a.k /\ res.s = a.start /\ res.t = a.end
     THEN (a.k = "tok" => D.vname[res.leaf] = D.vname[a.leaf])
     ELSE a.weak /\ res.k = "none" /\ res.s = res.t /\ res.s >= callStart /\ res.s <= a.start

ReadsOk == ~bad
SpanAtReturn == (phase = "run" /\ ev.e = "ret") => tstart <= tend /\ tend <= N
=============================================================================
