------------------------------ MODULE LexTrace ------------------------------
(* Trace validation, code -> specification, property level.                    *)
(*                                                                             *)
(* Consumes an NDJSON trace recorded from the REAL lexers (runtime hook in     *)
(* logos/src/lexer.rs + the driver's own `ret` events) and accepts it only if  *)
(* every event is allowed by the reference specification:                      *)
(*   next  : a call starts where the last item ended            (C03, C20)     *)
(*   read  : Some exactly when offset + size <= len             (C05)          *)
(*           offsets never decrease within an attempt           (C20)          *)
(*           #reads <= 4 * bytes examined + 8                   (C20)          *)
(*   end / endb / trivia : the visible span stays inside the source, on char   *)
(*           boundaries after endb                              (C04, C05)     *)
(*   ret   : the returned item is exactly RefNext(...)          (C01-C03, C07) *)
(* Events of many runs are concatenated; a `run` event resets the state.       *)
(* Acceptance: POSTCONDITION on the number of consumed events.                 *)
EXTENDS Ref, TLC, Json, IOUtils

Defs == ndJsonDeserialize(IOEnv.DEFS)
Rec  == ndJsonDeserialize(IOEnv.TRACE)
CheckRet == IOEnv.CHECKRET # "0"     \* long adversarial traces are validated without the RefNext conjunct

VARIABLES l,        \* next event to consume
          d, src, partial,
          tstart,   \* token_start
          tend,     \* token_end
          callStart,\* token_start at the beginning of the current next() call
          attStart, \* start of the current match attempt
          lastOff,  \* offset of the last read of this attempt
          maxEnd,   \* furthest byte examined by this attempt (exclusive)
          nreads,   \* reads of this attempt
          inCall    \* a next() call is in progress

vars == <<l, d, src, partial, tstart, tend, callStart, attStart, lastOff, maxEnd, nreads, inCall>>

D == Defs[d]
E == Rec[l]
Is(e) == l <= Len(Rec) /\ Rec[l].e = e

Init == /\ l = 1 /\ d = 1 /\ src = <<>> /\ partial = FALSE
        /\ tstart = 0 /\ tend = 0 /\ callStart = 0 /\ attStart = 0
        /\ lastOff = 0 /\ maxEnd = 0 /\ nreads = 0 /\ inCall = FALSE

Run == /\ Is("run")
       /\ d' = E.d /\ src' = E.src /\ partial' = E.partial
       /\ tstart' = 0 /\ tend' = 0 /\ callStart' = 0 /\ attStart' = 0
       /\ lastOff' = 0 /\ maxEnd' = 0 /\ nreads' = 0 /\ inCall' = FALSE
       /\ l' = l + 1

NextCall == /\ Is("next") /\ ~inCall
            /\ E.start = tend                       \* resumes at the end of the item just produced
            /\ tstart' = tend /\ callStart' = tend /\ attStart' = tend
            /\ lastOff' = tend /\ maxEnd' = tend /\ nreads' = 0
            /\ inCall' = TRUE
            /\ l' = l + 1
            /\ UNCHANGED <<d, src, partial, tend>>

Read == /\ Is("read") /\ inCall
        /\ E.some = (E.off + E.n <= Len(src))        \* C05: bounds rule, no overflow
        /\ E.off >= lastOff                          \* C20: never backwards within an attempt
        /\ E.off >= attStart
        /\ lastOff' = E.off
        /\ maxEnd' = IF E.some /\ E.off + E.n > maxEnd THEN E.off + E.n ELSE maxEnd
        /\ nreads' = nreads + 1
        /\ nreads' <= 4 * ((IF E.off > maxEnd' THEN E.off ELSE maxEnd') - attStart) + 8
        /\ l' = l + 1
        /\ UNCHANGED <<d, src, partial, tstart, tend, callStart, attStart, inCall>>

End == /\ Is("end") /\ inCall
       /\ E.off >= tstart /\ E.off <= Len(src)       \* the span stays inside the source
       /\ tend' = E.off
       /\ l' = l + 1
       /\ UNCHANGED <<d, src, partial, tstart, callStart, attStart, lastOff, maxEnd, nreads, inCall>>

EndB == /\ Is("endb") /\ inCall
        /\ E.res = RoundUp(D, src, E.off)            \* C04: error ends are rounded up to a char boundary
        /\ E.res >= tstart /\ E.res <= Len(src)
        /\ tend' = E.res
        /\ l' = l + 1
        /\ UNCHANGED <<d, src, partial, tstart, callStart, attStart, lastOff, maxEnd, nreads, inCall>>

Trivia == /\ Is("trivia") /\ inCall
          /\ E.start = tend /\ tend > tstart          \* a skip consumed something
          /\ tstart' = tend /\ attStart' = tend       \* a new attempt starts at the end of the skip
          /\ lastOff' = tend /\ maxEnd' = tend /\ nreads' = 0
          /\ l' = l + 1
          /\ UNCHANGED <<d, src, partial, tend, callStart, inCall>>

(* the driver's record of what next() returned, with the span observed right after *)
Ret == /\ Is("ret") /\ inCall
       /\ E.s = tstart /\ E.t = tend
       /\ IF CheckRet
          THEN LET a == TLCEval(RefNext(D, src, partial, callStart)) IN
               /\ IF E.k = a.k /\ E.s = a.start /\ E.t = a.end
                  THEN (a.k = "tok" => E.name = D.vname[a.leaf])
                  ELSE /\ a.weak /\ E.k = "none" /\ E.s = E.t       \* look-around: None one byte early
                       /\ E.s >= callStart /\ E.s <= a.start
               /\ IsBoundary(D, src, E.s) /\ IsBoundary(D, src, E.t)
          ELSE TRUE
       /\ inCall' = FALSE
       /\ l' = l + 1
       /\ UNCHANGED <<d, src, partial, tstart, tend, callStart, attStart, lastOff, maxEnd, nreads>>

Next == Run \/ NextCall \/ Read \/ End \/ EndB \/ Trivia \/ Ret
Spec == Init /\ [][Next]_vars

(* Accept iff every event was consumed. On rejection print where matching stopped. *)
Accepted ==
  LET n == TLCGet("stats").diameter - 1 IN
  IF n = Len(Rec) THEN TRUE
  ELSE /\ PrintT(<<"REJECT", ToJson([at |-> n + 1, event |-> IF n + 1 <= Len(Rec) THEN Rec[n + 1] ELSE [e |-> "eof"]])>>)
       /\ FALSE
=============================================================================
