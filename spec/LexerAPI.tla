------------------------------ MODULE LexerAPI ------------------------------
(* The public Lexer API as a state machine over lexer OBJECTS (C14, C15).      *)
(*                                                                             *)
(* Two slots hold lexers over the same source; each is a lexer for token type  *)
(* A or B (two definitions sharing the source type; D.twin links them), maybe  *)
(* wrapped by spanned().  Actions: Next, Bump(n) for valid and invalid n       *)
(* (including values whose addition overflows usize), Clone, Morph, Spanned.   *)
(* Expected results come from the reference lexer (module Ref).  `extras` is   *)
(* a counter incremented by callbacks (D.inc[leaf]) so that its preservation   *)
(* by clone / morph is observable.                                             *)
(*                                                                             *)
(* Checked by TLC in every reachable state: SpanInv (C15), clone independence  *)
(* and accessor equations are properties of the recorded observations, which   *)
(* the harness replays against the real API: one REPLAY line per distinct      *)
(* state = a history reaching it + every enabled operation with its expected   *)
(* result and observation.                                                     *)
EXTENDS Ref, TLC, Json, IOUtils

Defs   == ndJsonDeserialize(IOEnv.DEFS)
MaxLen == atoi(IOEnv.MAXLEN)
MaxOps == atoi(IOEnv.MAXOPS)
Fresh  == IOEnv.FRESH = "1"       \* lexers over a second buffer take part (the operations f and k)

VARIABLES d,       \* index of definition A of the pair (B = Defs[d].twin)
          phase, chars, partial,
          slots,   \* <<s1, s2>>: [k, sp, start, end, extras]
          hist     \* operations so far (witness, hidden from the view)

vars == <<d, phase, chars, partial, slots, hist>>
view == <<d, phase, chars, partial, slots>>

DA == Defs[d]
DB == Defs[Defs[d].twin]
Sel == {i \in 1..Len(Defs) : "apiA" \in {Defs[i].role} /\ Defs[i].twin # 0}

RECURSIVE FlatOf(_, _)
FlatOf(DD, cs) == IF cs = <<>> THEN <<>> ELSE DD.chars[Head(cs)] \o FlatOf(DD, Tail(cs))

DefOf(k) == IF k = "A" THEN DA ELSE DB
(* Two source buffers: buffer 1 holds the input, buffer 2 the same characters rotated by one (same length, other      *)
(* content and, for str, other char boundaries).  Every lexer reads the buffer it was created over (or cloned from):  *)
(* clone, clone_from, morph and spanned carry the SOURCE along with the position.                                      *)
Rot(cs) == IF cs = <<>> THEN <<>> ELSE Tail(cs) \o <<Head(cs)>>
CharsOf(b) == IF b = 2 THEN Rot(chars) ELSE chars
SrcOfB(k, b) == FlatOf(DefOf(k), CharsOf(b))
SrcOf(k) == SrcOfB(k, 1)
SrcLen   == Len(SrcOf("A"))

Empty == [k |-> "-", sp |-> FALSE, start |-> 0, end |-> 0, extras |-> 0, buf |-> 1]

Init == /\ d \in Sel
        /\ phase = "build" /\ chars = <<>> /\ partial \in BOOLEAN
        /\ slots = <<[Empty EXCEPT !.k = "A"], Empty>>
        /\ hist = <<>>

Extend(c) == /\ phase = "build" /\ Len(chars) < MaxLen
             /\ chars' = Append(chars, c)
             /\ UNCHANGED <<d, phase, partial, slots, hist>>
Begin == /\ phase = "build" /\ phase' = "run"
         /\ UNCHANGED <<d, chars, partial, slots, hist>>

Live(i) == slots[i].k # "-"
Other(i) == 3 - i
Str(n) == ToString(n)

(* ---- the operations: each yields [op, res, slot'] ---- *)
NextOp(i) ==
  LET s == slots[i]
      a == TLCEval(RefNext(DefOf(s.k), SrcOfB(s.k, s.buf), partial, s.end))
      item == IF a.k = "tok" THEN <<"ok", DefOf(s.k).vname[a.leaf], a.start, a.end>>
              ELSE IF a.k = "err" THEN <<"err", "", a.start, a.end>> ELSE <<"none", "", a.start, a.end>>
  IN [op |-> "n" \o Str(i - 1), res |-> item,
      slot |-> [s EXCEPT !.start = a.start, !.end = a.end,
                         !.extras = @ + (IF a.k = "tok" THEN DefOf(s.k).inc[a.leaf] ELSE 0)]]

Huge == {1000001, 1000002}                    \* stand for usize::MAX - 1 and usize::MAX
BumpArgs(i) == 0..(SrcLen - slots[i].end + 2) \cup Huge
BumpValid(i, n) == /\ n \notin Huge
                   /\ slots[i].end + n <= SrcLen
                   /\ IsBoundary(DA, SrcOfB("A", slots[i].buf), slots[i].end + n)
ArgStr(n) == IF n = 1000001 THEN "MAX-1" ELSE IF n = 1000002 THEN "MAX-0" ELSE Str(n)
BumpOp(i, n) ==
  [op |-> "b" \o Str(i - 1) \o ":" \o ArgStr(n),
   res |-> <<IF BumpValid(i, n) THEN "ok" ELSE "panic", "", 0, 0>>,
   slot |-> IF BumpValid(i, n) THEN [slots[i] EXCEPT !.end = @ + n] ELSE slots[i]]   \* a panicking bump changes nothing

MorphOp(i) ==
  [op |-> "m" \o Str(i - 1), res |-> <<"ok", "", 0, 0>>,
   slot |-> [slots[i] EXCEPT !.k = IF @ = "A" THEN "B" ELSE "A"]]

SpannedOp(i) ==
  [op |-> "s" \o Str(i - 1), res |-> <<"ok", "", 0, 0>>, slot |-> [slots[i] EXCEPT !.sp = TRUE]]

CloneOp(i) ==
  [op |-> "c" \o Str(i - 1) \o ":" \o Str(Other(i) - 1), res |-> <<"ok", "", 0, 0>>, slot |-> slots[i]]

(* a fresh lexer of type A over buffer 2 (Lexer::new / new_partial), replacing whatever the slot held *)
FreshOp(i) ==
  [op |-> "f" \o Str(i - 1), res |-> <<"ok", "", 0, 0>>, slot |-> [Empty EXCEPT !.k = "A", !.buf = 2]]

(* Clone::clone_from: slot j becomes a copy of slot i, like `slots[j] = slots[i].clone()` *)
CloneFromOp(i) ==
  [op |-> "k" \o Str(i - 1) \o ":" \o Str(Other(i) - 1), res |-> <<"ok", "", 0, 0>>, slot |-> slots[i]]

Obs(ss) == [j \in 1..2 |-> <<ss[j].k, ss[j].sp, ss[j].start, ss[j].end, ss[j].extras, ss[j].buf>>]

(* all operations enabled in this state, each with the slots after it *)
Enabled ==
  UNION {
    IF ~Live(i) THEN {}
    ELSE {[o |-> NextOp(i), after |-> [slots EXCEPT ![i] = NextOp(i).slot]]}
         \cup {[o |-> BumpOp(i, n), after |-> [slots EXCEPT ![i] = BumpOp(i, n).slot]] : n \in BumpArgs(i)}
         \cup (IF slots[i].sp THEN {} ELSE {[o |-> MorphOp(i), after |-> [slots EXCEPT ![i] = MorphOp(i).slot]],
                                            [o |-> SpannedOp(i), after |-> [slots EXCEPT ![i] = SpannedOp(i).slot]]})
         \cup {[o |-> CloneOp(i), after |-> [slots EXCEPT ![Other(i)] = slots[i]]]}
         \cup (IF Live(Other(i)) /\ slots[Other(i)].k = slots[i].k /\ slots[Other(i)].sp = slots[i].sp /\ slots[Other(i)] # slots[i]
               THEN {[o |-> CloneFromOp(i), after |-> [slots EXCEPT ![Other(i)] = slots[i]]]} ELSE {})
    : i \in 1..2}
  \cup (IF Fresh /\ chars # <<>> THEN {[o |-> FreshOp(2), after |-> [slots EXCEPT ![2] = FreshOp(2).slot]]} ELSE {})

Do == /\ phase = "run" /\ Len(hist) < MaxOps
      /\ \E e \in Enabled :
            /\ slots' = e.after
            /\ hist' = Append(hist, e.o.op)
      /\ UNCHANGED <<d, phase, chars, partial>>

Next == Begin \/ Do \/ \E c \in 1..Len(DA.chars) : Extend(c)
Spec == Init /\ [][Next]_vars

-----------------------------------------------------------------------------
(* C15: whatever was called, with whatever n, every live lexer's span is inside the source, *)
(* ordered, and (str) on char boundaries.                                                   *)
SpanInv == \A i \in 1..2 : Live(i) =>
             /\ slots[i].start <= slots[i].end /\ slots[i].end <= SrcLen
             /\ IsBoundary(DA, SrcOfB("A", slots[i].buf), slots[i].start) /\ IsBoundary(DA, SrcOfB("A", slots[i].buf), slots[i].end)

ReplayRec == [d |-> d, chars |-> chars, partial |-> partial, hist |-> hist, obs |-> Obs(slots),
              ops |-> {<<e.o.op, e.o.res, Obs(e.after)>> : e \in Enabled}]
EmitReplay == phase = "run" => PrintT(<<"API", ToJson(ReplayRec)>>)
=============================================================================
