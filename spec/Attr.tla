-------------------------------- MODULE Attr --------------------------------
(* C18: attribute arguments may be given in any order.                         *)
(*                                                                             *)
(* Part 1 (the abstract grammar the documentation promises): an attribute is   *)
(* a literal, an optional positional callback, then NAMED arguments in any     *)
(* order; the items of one #[logos(...)] attribute may come in any order that  *)
(* defines every subpattern before its use.  The meaning of an attribute is    *)
(* the SET of its named arguments, so every permutation means the same as the  *)
(* canonical order.  TLC enumerates every permutation of every subset and      *)
(* prints it for replay against the real derive.                               *)
(*                                                                             *)
(* Part 2 (the tokenizer as written, parser/nested.rs AttributeParser): a      *)
(* model over token kinds, one case per arm of `next`, checked by TLC to       *)
(* split every printed argument list into the same items as the abstract       *)
(* grammar (split at top-level commas).                                        *)
EXTENDS Naturals, Sequences, FiniteSets, TLC, Json

Kinds == {"token", "regex", "skip"}
Named == {"priority", "callback", "ignore", "allow_greedy"}
Items == {"skip", "extras", "error", "subA", "subB", "utf8", "lifetime", "ltnone", "type"}
(* more forms of the same items: the error type with a callback (group form), utf8 = false, and a skip whose      *)
(* byte-string pattern is acceptable only BECAUSE the lexer is a byte lexer - wherever `utf8 = false` stands       *)
Forms == {"errorcb", "utf8f", "skipb"}
(* items that change nothing about the lexer itself (where the crate is, where graphs are exported to): *)
(* listed anywhere, they must not change what the items around them mean                                *)
Neutral == {"crate", "export_dir"}

Injective(s) == \A i, j \in DOMAIN s : i # j => s[i] # s[j]
Perms(S) == {s \in [1..Cardinality(S) -> S] : Injective(s)}

(* --- part 2: token kinds of each argument ---------------------------------------------------- *)
Toks(arg) == CASE arg = "lit"          -> <<"Lit">>
               [] arg = "poscb"        -> <<"Pipe", "Ident", "Pipe", "Ident">>        \* |lex| body
               [] arg = "priority"     -> <<"Ident", "Eq", "Lit">>
               [] arg = "callback"     -> <<"Ident", "Eq", "Pipe", "Ident", "Pipe", "Ident">>
               [] arg = "ignore"       -> <<"Ident", "Group">>                        \* ignore(case)
               [] arg = "allow_greedy" -> <<"Ident", "Eq", "Ident">>
               [] arg = "skip"         -> <<"Ident", "Group">>                        \* skip("a", priority = 3)
               [] arg = "extras"       -> <<"Ident", "Eq", "Ident">>
               [] arg = "error"        -> <<"Ident", "Eq", "Ident">>
               [] arg = "subA"         -> <<"Ident", "Ident", "Eq", "Lit">>           \* subpattern a = "x"
               [] arg = "subB"         -> <<"Ident", "Ident", "Eq", "Lit">>
               [] arg = "utf8"         -> <<"Ident", "Eq", "Ident">>
               [] arg = "lifetime"     -> <<"Ident", "Eq", "Other">>                  \* lifetime = 'a
               [] arg = "ltnone"       -> <<"Ident", "Eq", "Ident">>                  \* lifetime = none
               [] arg = "type"         -> <<"Ident", "Ident", "Eq", "Other", "Other", "Ident">>   \* type T = &'a str
               [] arg = "errorcb"      -> <<"Ident", "Group">>                                   \* error(MyErr, callback = |lex| ..)
               [] arg = "utf8f"        -> <<"Ident", "Eq", "Ident">>                             \* utf8 = false
               [] arg = "skipb"        -> <<"Ident", "Group">>                                   \* skip(b"\xff+")
               [] arg = "crate"        -> <<"Ident", "Eq", "Other", "Ident">>                    \* crate = ::logos
               [] arg = "export_dir"   -> <<"Ident", "Eq", "Lit">>                               \* export_dir = "dir"

RECURSIVE Stream(_)
Stream(args) == IF args = <<>> THEN <<>>
                ELSE IF Len(args) = 1 THEN Toks(args[1])
                ELSE Toks(args[1]) \o <<"Comma">> \o Stream(Tail(args))

(* abstract grammar: items are the maximal comma-free runs *)
RECURSIVE SplitAbs(_, _)
SplitAbs(ts, cur) == IF ts = <<>> THEN (IF cur = <<>> THEN <<>> ELSE <<cur>>)
                     ELSE IF Head(ts) = "Comma" THEN <<cur>> \o SplitAbs(Tail(ts), <<>>)
                     ELSE SplitAbs(Tail(ts), Append(cur, Head(ts)))

(* the tokenizer as written.  CollectTail consumes up to and including the next comma.           *)
RECURSIVE CollectTail(_, _)
CollectTail(ts, acc) == IF ts = <<>> THEN [item |-> acc, rest |-> <<>>]
                        ELSE IF Head(ts) = "Comma" THEN [item |-> acc, rest |-> Tail(ts)]
                        ELSE CollectTail(Tail(ts), Append(acc, Head(ts)))

(* GroupEatsComma: whether parse_group consumes the separator after the group (the fixed code    *)
(* does; the pinned code did not -- known finding F4).                                           *)
GroupEatsComma == TRUE

RECURSIVE ParseModel(_)
ParseModel(ts) ==
  IF ts = <<>> THEN <<>>
  ELSE LET first == Head(ts) rest == Tail(ts) IN
    IF first # "Ident"
    THEN LET c == CollectTail(rest, <<first>>) IN <<c.item>> \o ParseModel(c.rest)      \* Unnamed
    ELSE IF rest = <<>> \/ Head(rest) = "Comma"
         THEN <<<<first>>>> \o ParseModel(IF rest = <<>> THEN <<>> ELSE Tail(rest))      \* lone ident
         ELSE LET second == Head(rest) after == Tail(rest) IN
              IF second = "Group"
              THEN IF GroupEatsComma
                   THEN LET c == CollectTail(after, <<first, second>>) IN <<c.item>> \o ParseModel(c.rest)
                   ELSE <<<<first, second>>>> \o ParseModel(after)                      \* parse_group: returns at once
              ELSE LET c == CollectTail(after, <<first, second>>) IN <<c.item>> \o ParseModel(c.rest)

TokenizerRefinesGrammar(args) == ParseModel(Stream(args)) = SplitAbs(Stream(args), <<>>)

(* --- part 1: enumeration ---------------------------------------------------------------------- *)
VARIABLE c
NamedSets(k, p) == {T \in SUBSET Named : ~(p /\ "callback" \in T) /\ ("allow_greedy" \in T => k # "token")}
(* shapes of the callback expression: commas, angle brackets and comparison operators inside it    *)
(* belong to the callback, whatever follows it                                                      *)
CbVals == {"simple", "lt", "shift", "generic", "tuple", "block", "bitor"}     \* bitor: a `|` operator in the body, after the two that delimit the parameter
HasCb(p, s) == p \/ \E i \in DOMAIN s : s[i] = "callback"
AttrCasesFor(k, p) == {[t |-> "attr", kind |-> k, poscb |-> p, named |-> pc[1], cbv |-> pc[2]] :
                         pc \in {q \in (UNION {Perms(S) : S \in NamedSets(k, p)}) \X (CbVals \cup {"none"}) :
                                  (q[2] = "none") = ~HasCb(p, q[1])}}
AttrCases == UNION {AttrCasesFor(k, p) : k \in Kinds, p \in BOOLEAN}
ItemCases == {[t |-> "items", kind |-> "logos", poscb |-> FALSE, named |-> s, cbv |-> "none"] :
                s \in {q \in UNION {Perms(S) : S \in {T \in SUBSET (Items \cup Neutral \cup Forms) :
                                                                   /\ Cardinality(T) >= 2
                                                                   /\ Cardinality(T) <= (IF T \cap Forms # {} THEN 3 ELSE IF T \cap Neutral = {} THEN 5 ELSE 4)
                                                                   /\ ~({"error", "errorcb"} \subseteq T) /\ ~({"utf8", "utf8f"} \subseteq T)
                                                                   /\ ("skipb" \in T => "utf8f" \in T /\ "skip" \notin T)      \* two skips in another order are the same lexer with other leaf numbers
                                                                   /\ ("utf8f" \in T => T \cap {"lifetime", "ltnone", "type"} = {})
                                                                   /\ ("subB" \in T => "subA" \in T)
                                                                   /\ ~({"lifetime", "ltnone"} \subseteq T)}} :
                         \A i, j \in DOMAIN q : (q[i] = "subA" /\ q[j] = "subB") => i < j}}

Init == c \in AttrCases \cup ItemCases
Next == UNCHANGED c
Spec == Init /\ [][Next]_c

ArgsOf(cc) == IF cc.t = "attr" THEN <<"lit">> \o (IF cc.poscb THEN <<"poscb">> ELSE <<>>) \o cc.named ELSE cc.named

Refines == TokenizerRefinesGrammar(ArgsOf(c))
Emit == PrintT(<<"ATTR", ToJson(c)>>)
=============================================================================
