------------------------------ MODULE BumpInv ------------------------------
(* Design-level statement behind C15, over UNBOUNDED integers (Apalache):      *)
(* the span invariant 0 <= start <= end <= len is inductive under the API      *)
(* actions when bump validates the new end before storing it (the repaired     *)
(* Lexer::bump), for every n, including n that overflow the machine word       *)
(* (modelled as: the checked addition fails for end + n > MaxWord).            *)
(* This is extra evidence for the design; the deciding check for C15 is the    *)
(* TLC exploration of LexerAPI.tla replayed on the real code.                  *)
EXTENDS Integers

CONSTANTS
  \* @type: Int;
  Len,
  \* @type: Int;
  MaxWord

VARIABLES
  \* @type: Int;
  start,
  \* @type: Int;
  end

ConstInit == Len \in Nat /\ MaxWord \in Nat /\ Len <= MaxWord

Init == start = 0 /\ end = 0

\* next(): the new token starts at the old end and ends somewhere up to len
NextItem == \E e \in Int : e >= end /\ e <= Len /\ start' = end /\ end' = e

\* bump(n) for an arbitrary n >= 0: checked_add, then the boundary test, then the store
Bump == \E n \in Int :
          /\ n >= 0
          /\ IF end + n <= MaxWord /\ end + n <= Len
             THEN end' = end + n /\ start' = start      \* valid: stored
             ELSE end' = end /\ start' = start          \* panics: nothing stored

Next == NextItem \/ Bump

\* the pinned code before the repair: add (wrapping in release builds), store, then assert
BumpStoreFirst == \E n \in Int :
          /\ n >= 0
          /\ end' = IF end + n <= MaxWord THEN end + n ELSE end + n - MaxWord - 1
          /\ start' = start
NextOld == NextItem \/ BumpStoreFirst

SpanInv == 0 <= start /\ start <= end /\ end <= Len
IndInit == start \in Int /\ end \in Int /\ SpanInv
=============================================================================
