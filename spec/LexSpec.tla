------------------------------ MODULE LexSpec ------------------------------
(* The reference lexer on EXPLICIT inputs: what the user of a derived lexer is *)
(* promised (maximal munch, priorities, error spans, skips, partial mode),     *)
(* defined from the per-pattern reference automata only (module Ref).          *)
(*                                                                             *)
(* TLC enumerates, per definition, every input made of at most MAXLEN          *)
(* characters of the definition's alphabet D.chars (each character is a        *)
(* sequence of 1-4 byte blocks, so str inputs stay valid UTF-8), runs the      *)
(* reference lexer as a state machine (one Next step per next() call) and      *)
(* checks the sequence-level properties on it:                                 *)
(*   Tiling / Progress (C03), boundaries (C04), chunked == one-shot (C07).     *)
(* Every complete behaviour prints one RUN line (the expected item sequence),  *)
(* which the harness replays on the compiled lexers in every configuration.    *)
EXTENDS Ref, TLC, Json, IOUtils

Defs   == ndJsonDeserialize(IOEnv.DEFS)
MaxLen == atoi(IOEnv.MAXLEN)
Emit   == IOEnv.EMIT = "1"

VARIABLES d,      \* definition
          phase,  \* "build": the input is being chosen character by character; "run": lexing
          chars,  \* the input as a sequence of character indices
          src,    \* the input as a sequence of blocks
          pos,    \* token_end: where the next call starts
          out,    \* items yielded so far (history)
          done    \* None has been returned

vars == <<d, phase, chars, src, pos, out, done>>

D == Defs[d]
(* definitions with a pattern that matches the empty string must not have been accepted at all (C03 reports  *)
(* them from the capture metadata); they are excluded here, the reference lexer makes no progress on them      *)
Sel == {i \in 1..Len(Defs) : Defs[i].accepted /\ Defs[i].hasGraph /\ Defs[i].refsOk /\ Len(Defs[i].chars) > 0
                             /\ \A k \in 1..Defs[i].nL : ~Defs[i].ref[k].nullable}

Init == /\ d \in Sel
        /\ phase = "build" /\ chars = <<>> /\ src = <<>>
        /\ pos = 0 /\ out = <<>> /\ done = FALSE

(* the environment chooses the input: all sequences of at most MaxLen characters *)
Extend(c) == /\ phase = "build" /\ Len(chars) < MaxLen
             /\ chars' = Append(chars, c)
             /\ src' = src \o D.chars[c]
             /\ UNCHANGED <<d, phase, pos, out, done>>

Begin == /\ phase = "build"
         /\ phase' = "run"
         /\ UNCHANGED <<d, chars, src, pos, out, done>>

(* one call of next() *)
Call == /\ phase = "run" /\ ~done
        /\ LET a == RefNext(D, src, FALSE, pos) IN
           /\ out' = Append(out, a)
           /\ pos' = a.end
           /\ done' = (a.k = "none")
        /\ UNCHANGED <<d, phase, chars, src>>

Next == Begin \/ Call \/ \E c \in 1..Len(D.chars) : Extend(c)

Spec == Init /\ [][Next]_vars /\ WF_vars(Begin) /\ WF_vars(Call)

-----------------------------------------------------------------------------
(* C03: every item has a non-empty span that starts at or after the previous end; gaps are        *)
(* exactly skipped regions; the last item or skip ends at the input length.                        *)
Progress == \A i \in 1..Len(out) : out[i].k # "none" => out[i].end > out[i].start
Ordered  == \A i \in 1..Len(out) :
              /\ out[i].start >= (IF i = 1 THEN 0 ELSE out[i - 1].end)
              /\ out[i].end <= Len(src)

RECURSIVE SkipsCover(_, _)      \* [from, to) is tiled by skip matches of the reference
SkipsCover(from, to) ==
  IF from = to THEN TRUE
  ELSE LET a == RefAttempt(D, src, FALSE, from) IN
       a.k = "tok" /\ IsSkip(D, a.leaf) /\ a.end > from /\ a.end <= to /\ SkipsCover(a.end, to)
Gaps == \A i \in 1..Len(out) : SkipsCover(IF i = 1 THEN 0 ELSE out[i - 1].end, out[i].start)
EndsAtLen == done => out[Len(out)].start = Len(src) /\ out[Len(out)].end = Len(src)

(* C04: every visible span boundary is a char boundary. *)
Boundaries == \A i \in 1..Len(out) : IsBoundary(D, src, out[i].start) /\ IsBoundary(D, src, out[i].end)

(* C03 termination: the variant Len(src) - pos strictly decreases until None. *)
Terminates == <>done
Variant == [][(phase = "run" /\ ~done) => (done' \/ pos' > pos)]_vars

-----------------------------------------------------------------------------
(* C07, user protocol: lex a prefix with a partial lexer until None, keep the position, extend     *)
(* the buffer, ..., finish with an ordinary lexer.  ks = increasing split points (offsets).        *)
Prefix(s, k) == SubSeq(s, 1, k)

Shift(items, q) == [i \in 1..Len(items) |-> [items[i] EXCEPT !.start = @ + q, !.end = @ + q]]

Drop(s, q) == SubSeq(s, q + 1, Len(s))

(* items before the first none, and the position reported at none *)
Body(items) == SubSeq(items, 1, Len(items) - 1)
Last(items) == items[Len(items)]

RECURSIVE Chunked(_, _)
Chunked(q, ks) ==
  IF ks = <<>> THEN Shift(RefItems(D, Drop(src, q), FALSE, 0), q)
  ELSE LET k  == Head(ks)
           it == RefItems(D, Drop(Prefix(src, k), q), TRUE, 0)
       IN IF k < q THEN Chunked(q, Tail(ks))
          ELSE Shift(Body(it), q) \o Chunked(q + Last(it).start, Tail(ks))

StripWeak(items) == [i \in 1..Len(items) |-> [items[i] EXCEPT !.weak = FALSE]]

SplitPoints == {k \in 1..(Len(src) - 1) : IsBoundary(D, src, k)}
Schedules == {<<>>} \cup {<<k>> : k \in SplitPoints}
             \cup {pq \in SplitPoints \X SplitPoints : pq[1] < pq[2]}

(* strict promptness makes the chunked stream equal to the one-shot stream for every schedule *)
ChunkedEqualsOneShot ==
  (phase = "run" /\ pos = 0 /\ out = <<>>) =>
     \A ks \in Schedules : StripWeak(Chunked(0, ks)) = StripWeak(RefItems(D, src, FALSE, 0))

-----------------------------------------------------------------------------
Item5(a) == <<a.k, a.leaf, a.start, a.end, a.weak>>
RunRec == [d |-> d, src |-> src, chars |-> chars,
           items |-> [i \in 1..Len(out) |-> Item5(out[i])],
           parts |-> [k \in 0..Len(src) |->
                        IF IsBoundary(D, src, k)
                        THEN LET it == RefItems(D, Prefix(src, k), TRUE, 0) IN [i \in 1..Len(it) |-> Item5(it[i])]
                        ELSE <<>>]]
EmitRun == (Emit /\ done) => PrintT(<<"RUN", ToJson(RunRec)>>)
=============================================================================
