SPECIFICATION Spec
CHECK_DEADLOCK FALSE
INVARIANTS
  Emit
