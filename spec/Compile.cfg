SPECIFICATION Spec
CHECK_DEADLOCK FALSE
INVARIANTS
  EarlyPass
  LatePass
  PrunePass
  DedupPass
