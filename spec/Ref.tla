-------------------------------- MODULE Ref --------------------------------
(* The reference meaning of a definition D (record exported by the harness):  *)
(* per-pattern automata with delayed reporting, captured priorities.          *)
(* All operators take D explicitly so that every specification shares them.   *)
EXTENDS Naturals, Sequences, FiniteSets, Utf8, TLC

RStart(D)       == [i \in 1..D.nL |-> D.ref[i].start]
RStep(D, rr, x) == [i \in 1..D.nL |-> IF rr[i] = 0 THEN 0 ELSE D.ref[i].tr[rr[i]][x]]
REoi(D, rr)     == [i \in 1..D.nL |-> IF rr[i] = 0 THEN 0 ELSE D.ref[i].eoi[rr[i]]]
RepSet(D, rr)   == {i \in 1..D.nL : rr[i] # 0 /\ D.ref[i].rep[rr[i]]}
Viable(D, rr)   == \E i \in 1..D.nL : rr[i] # 0 /\ D.ref[i].via[rr[i]]
Top(D, M)       == {i \in M : \A j \in M : D.prio[j] <= D.prio[i]}
Winner(D, M)    == IF M = {} THEN 0 ELSE CHOOSE i \in Top(D, M) : TRUE
HasLook(D)      == \E i \in 1..D.nL : D.ref[i].look
IsSkip(D, l)    == D.kind[l] = "skip"

(* src is a sequence of blocks; offsets are 0-based: src[o+1] is the byte at offset o. *)
IsBoundary(D, src, o) ==       \* IF form: safe to use inside actions (TLC splits action-level \/)
  IF D.mode # "str" THEN TRUE
  ELSE IF o >= Len(src) THEN o = Len(src)
  ELSE ~IsCont(D.u8[src[o + 1]])

RECURSIVE RoundUp(_, _, _)
RoundUp(D, src, o) == IF o >= Len(src) \/ IsBoundary(D, src, o) THEN o ELSE RoundUp(D, src, o + 1)

Max2(a, b) == IF a > b THEN a ELSE b

NoBest == [leaf |-> 0, end |-> 0]

(* Det: no continuation of what has been read can change the outcome (end of a prefix buffer). *)
Det(D, rr) ==
  LET me == Winner(D, RepSet(D, REoi(D, rr))) IN
  \A x \in 1..D.nB :
     (D.mode # "str" \/ U8Step(0, D.u8[x]) # U8Bad) =>     \* a str buffer ends on a char boundary
       LET r2 == RStep(D, rr, x) IN ~Viable(D, r2) /\ Winner(D, RepSet(D, r2)) = me

(* the same without the restriction to bytes that may start a character: used for "was the item   *)
(* already determined one byte ago", a position that may lie inside a character                    *)
DetAny(D, rr) ==
  LET me == Winner(D, RepSet(D, REoi(D, rr))) IN
  \A x \in 1..D.nB : LET r2 == RStep(D, rr, x) IN ~Viable(D, r2) /\ Winner(D, RepSet(D, r2)) = me

(* One reference attempt from offset p (p < Len(src)).  partial: src is only a prefix.            *)
(* Result: [k |-> "tok"|"err"|"none", leaf, start, end, weak]                                      *)
(*   weak = the decision was taken at the end of a prefix buffer (look-around definitions may     *)
(*          legitimately answer None there, one byte early)                                        *)
RECURSIVE Scan(_, _, _, _, _, _, _, _)
Scan(D, src, partial, p, i, rr, best, detPrev) ==
  IF i = Len(src)
  THEN IF partial /\ ~(i > p /\ Det(D, rr))
       THEN [k |-> "none", leaf |-> 0, start |-> p, end |-> p, weak |-> FALSE]
       ELSE LET m  == Winner(D, RepSet(D, REoi(D, rr)))
                b2 == IF m # 0 THEN [leaf |-> m, end |-> i] ELSE best
                wk == partial /\ HasLook(D) /\ ~detPrev
            IN IF b2.leaf = 0
               THEN [k |-> "err", leaf |-> 0, start |-> p, end |-> RoundUp(D, src, Max2(i, p + 1)), weak |-> wk]
               ELSE [k |-> "tok", leaf |-> b2.leaf, start |-> p, end |-> b2.end, weak |-> wk]
  ELSE LET x  == src[i + 1]
           r2 == RStep(D, rr, x)
           m  == Winner(D, RepSet(D, r2))
           b2 == IF m # 0 THEN [leaf |-> m, end |-> i] ELSE best
       IN IF Viable(D, r2)
          THEN Scan(D, src, partial, p, i + 1, TLCEval(r2), TLCEval(b2), TLCEval(i > p /\ DetAny(D, rr)))
          ELSE IF b2.leaf = 0
               THEN [k |-> "err", leaf |-> 0, start |-> p, end |-> RoundUp(D, src, Max2(i, p + 1)), weak |-> FALSE]
               ELSE [k |-> "tok", leaf |-> b2.leaf, start |-> p, end |-> b2.end, weak |-> FALSE]

RefAttempt(D, src, partial, p) ==
  IF p >= Len(src) THEN [k |-> "none", leaf |-> 0, start |-> p, end |-> p, weak |-> FALSE]
  ELSE Scan(D, src, partial, p, p, RStart(D), NoBest, FALSE)

(* One call of next(): attempts from p, skipping skip matches, until an item, an error or None.    *)
(* (accumulator form and TLCEval on recursive arguments: TLC passes operator arguments lazily and  *)
(* does not memoise them, which makes naive recursion exponential in the input length)             *)
RECURSIVE RefNextW(_, _, _, _, _)
RefNextW(D, src, partial, p, w) ==
  LET a == TLCEval(RefAttempt(D, src, partial, p)) IN
  IF a.k = "tok" /\ IsSkip(D, a.leaf) /\ a.end > p
  THEN RefNextW(D, src, partial, TLCEval(a.end), TLCEval(w \/ a.weak))
  ELSE [a EXCEPT !.weak = a.weak \/ w]
RefNext(D, src, partial, p) == RefNextW(D, src, partial, p, FALSE)

(* The whole item sequence from offset p (a "none" result terminates it). *)
RECURSIVE RefItems(_, _, _, _)
RefItems(D, src, partial, p) ==
  LET a == TLCEval(RefNext(D, src, partial, p)) IN
  IF a.k = "none" \/ a.end <= p THEN <<a>> ELSE <<a>> \o RefItems(D, src, partial, TLCEval(a.end))
=============================================================================
