#!/usr/bin/env python3
"""Evaluate a seeded change: confirm it (tests pass, demo fails with / passes without), store it under
/verif/seeded/<name>/, run the listed checks against it on /repo and undo it.
usage: mutant.py <name> <worktree> <property> [<more properties to run>...]"""
import json
import os
import shutil
import subprocess
import sys
import time

VERIF = os.path.dirname(os.path.dirname(os.path.abspath(__file__)))
REPO = "/repo"


def sh(cmd, cwd=None, timeout=7200):
    p = subprocess.run(cmd, shell=True, cwd=cwd, capture_output=True, text=True, timeout=timeout)
    return p.returncode, p.stdout + p.stderr


def main():
    name, wt, prop = sys.argv[1], sys.argv[2], sys.argv[3]
    run_props = sys.argv[3:]
    mdir = os.path.join(wt, "MUTANT")
    patch = os.path.join(mdir, "patch.diff")
    meta = {"breaks_property": prop, "name": name, "confirmed": {}, "checks": {}}
    env = "CARGO_NET_OFFLINE=true CARGO_TARGET_DIR=%s/target" % wt
    skip_confirm = os.environ.get("SKIP_CONFIRM") == "1"
    if not skip_confirm:
        # 1. the change compiles and the existing suite passes with it (demo moved aside)
        demo = os.path.join(wt, "tests/tests/mutant_demo.rs")
        had_demo = os.path.exists(demo)
        if had_demo:
            shutil.move(demo, demo + ".aside")
        others = [p for p in (os.path.join(wt, "logos-codegen/tests/mutant_demo.rs"), os.path.join(wt, "logos-cli/tests/mutant_demo.rs")) if os.path.exists(p)]
        for p in others:
            shutil.move(p, p + ".aside")
        rc, out = sh("%s cargo test --workspace --offline 2>&1 | grep -E '^test result|FAILED|failed|error(\\[|:)' | sort | uniq -c | tail -15" % env, cwd=wt)
        meta["confirmed"]["suite_with_change"] = out.strip()[-1500:]
        suite_ok = "FAILED" not in out and "failed" not in out.replace("0 failed", "") and "error" not in out
        if had_demo:
            shutil.move(demo + ".aside", demo)
        for p in others:
            shutil.move(p + ".aside", p)
        # 2. demo fails with the change
        rc1, out1 = sh("%s sh MUTANT/run_demo.sh > /tmp/demo_out_%s.txt 2>&1; rc=$?; tail -25 /tmp/demo_out_%s.txt; exit $rc" % (env, name, name), cwd=wt)
        # 3. demo passes without
        sh("git apply -R MUTANT/patch.diff", cwd=wt)
        rc2, out2 = sh("%s sh MUTANT/run_demo.sh > /tmp/demo_out_%s.txt 2>&1; rc=$?; tail -15 /tmp/demo_out_%s.txt; exit $rc" % (env, name, name), cwd=wt)
        sh("git apply MUTANT/patch.diff", cwd=wt)
        meta["confirmed"].update({"suite_passes_with_change": suite_ok, "demo_exit_with_change": rc1, "demo_tail_with_change": out1[-1200:],
                                  "demo_exit_without_change": rc2, "demo_tail_without_change": out2[-600:]})
        print("confirm: suite_ok=%s demo_with=%s demo_without=%s" % (suite_ok, rc1, rc2))
    dst = os.path.join(VERIF, "seeded", name)
    if os.environ.get("CONFIRM_ONLY") == "1":
        # keep the recorded check results, refresh the confirmation only
        old = json.load(open(os.path.join(dst, "meta.json")))
        old["confirmed"] = meta["confirmed"]
        with open(os.path.join(dst, "meta.json"), "w") as f:
            json.dump(old, f, indent=1)
        print("confirmation refreshed")
        return
    if os.path.exists(os.path.join(dst, "meta.json")):
        old_meta = json.load(open(os.path.join(dst, "meta.json")))
        if skip_confirm:
            meta["confirmed"] = old_meta.get("confirmed", {})      # confirmed in an earlier run
        # keep what earlier runs found (a change that was missed first and is caught now stays visible)
        if old_meta.get("checks"):
            meta["earlier_runs"] = old_meta.get("earlier_runs", []) + [{p: {"exit": c["exit"], "violations": c.get("violations")} for p, c in old_meta["checks"].items()}]
    shutil.rmtree(dst, ignore_errors=True)
    shutil.copytree(mdir, dst)
    # 4. run the checks against the change.  Default: applied to /repo itself and undone afterwards.
    #    With MUTANT_ALT=1: applied to a fresh scratch worktree used through VERIF_REPO, so that /repo stays free.
    alt = os.environ.get("MUTANT_ALT") == "1"
    if alt:
        scratch = "/tmp/mw-" + name
        sh("git -C %s worktree remove --force %s" % (REPO, scratch))
        rc, out = sh("git -C %s worktree add -q %s HEAD && git -C %s apply %s" % (REPO, scratch, scratch, patch))
        if rc != 0:
            print("cannot prepare scratch worktree:", out)
            sys.exit(2)
        envp = "VERIF_REPO=%s VERIF_EVIDENCE_DIR=%s/work/evidence-alt " % (scratch, VERIF)
    else:
        rc, out = sh("git -C %s status --porcelain | grep -v '^??' | head -3" % REPO)
        if out.strip():
            print("refusing: /repo has local modifications:", out)
            sys.exit(2)
        rc, out = sh("git -C %s apply %s" % (REPO, patch))
        if rc != 0:
            print("patch does not apply to /repo:", out)
            sys.exit(2)
        envp = ""
    try:
        for p in run_props:
            t0 = time.time()
            rc, out = sh("%s./check %s --tier quick" % (envp, p), cwd=VERIF)
            viol = [l for l in out.splitlines() if l.startswith("VIOLATION")]
            first = [l for l in out.splitlines() if l.startswith("  key=")][:3]
            meta["checks"][p] = {"exit": rc, "violations": len(viol), "first": first, "wall_s": round(time.time() - t0, 1),
                                 "tail": "" if rc in (0, 1) else out[-1500:]}
            print("check %s -> exit %d, %d VIOLATION lines (%.0fs)" % (p, rc, len(viol), time.time() - t0))
            for l in first[:2]:
                print("   ", l[:300])
            if rc not in (0, 1):
                print(out[-1500:])
    finally:
        if alt:
            sh("git -C %s worktree remove --force %s" % (REPO, scratch))
            import hashlib
            tag = "-alt" + hashlib.sha256(scratch.encode() + b"\0").hexdigest()[:6]      # pipeline.alt_tag() of this scratch tree only
            sh("rm -rf %s/work/target-subj-*%s %s/work/target%s* %s/work/harness%s %s/work/target-cli%s*" % (VERIF, tag, VERIF, tag, VERIF, tag, VERIF, tag))
        else:
            sh("git -C %s checkout -- ." % REPO)
            sh("git -C %s checkout -- evidence" % VERIF)
    meta["what_it_needs"] = open(os.path.join(mdir, "README.md")).read()[:3000] if os.path.exists(os.path.join(mdir, "README.md")) else ""
    meta["ran"] = "lib/mutant.py %s" % " ".join(sys.argv[1:])
    meta["detected_by"] = [p for p, c in meta["checks"].items() if c["exit"] == 1]
    with open(os.path.join(dst, "meta.json"), "w") as f:
        json.dump(meta, f, indent=1)
    print("detected_by:", meta["detected_by"])


if __name__ == "__main__":
    main()
