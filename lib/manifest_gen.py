"""Writes MANIFEST.json from the table below (single source of truth)."""
import json, os
VERIF = os.path.dirname(os.path.dirname(os.path.abspath(__file__)))

ENGINE_A = "Attempt.tla product exploration (captured graph x reference automata x UTF-8) + replay on compiled lexers"
CHECKS = {
 "C01": ("model_checking", "TLC on Attempt.tla (T-munch, T-live) + replay of every product state on 4 lexer builds",
         "TLC explores, for every corpus definition, the finite product of the graph captured from the real derive with independently built per-pattern reference automata over byte blocks, so the longest-match/priority comparison covers inputs of every length; every product state is then replayed with concrete bytes on the lexers rustc compiled from the real derive (tail-call/state-machine x unsafe/forbid_unsafe). Corpus-bounded on definitions.",
         "trusts regex-automata/regex-syntax as the meaning of a single pattern, TLC, rustc; definitions limited to corpus + seeded random; bytes of a block not instantiated are assumed to behave like the instantiated ones", "3.4, 5 C01"),
 "C02": ("model_checking", "TLC on Attempt.tla (T-exact, T-live, error outcomes) + replay incl. char-boundary rounding",
         "Same exploration as C01; the reference side prescribes for every product state and next block the error span (first non-viable byte, at least one byte, rounded up to a char boundary) and the replay compares it with the real lexers, multi-byte characters included.",
         "as C01", "3.4, 5 C02"),
 "C07": ("model_checking", "TLC on Attempt.tla (T-part: Det) + replay of new_partial on every product-state prefix",
         "For every product state the specification decides from the reference automata alone whether the item is determined by the prefix (Det); the real partial lexer is run on the concrete prefix of every product state and must return None exactly when it is not determined (look-around definitions may be one byte late).",
         "as C01; chunk schedules longer than one split are covered by the sequence-level engine when built", "3.4 T-part, 5 C07"),
 "C08": ("model_checking", "TLC on Amb.tla (reachable top-priority tie sets of the reference product) vs captured Disambiguation errors",
         "TLC enumerates every reachable state of the product of the per-pattern reference automata and collects the sets of patterns tied at top priority; the family of sets must equal what the real derive reported, in both directions, and the diagnostic must name every member.",
         "priorities as captured; regex-automata as pattern meaning", "3.4 T-amb, 5 C08"),
 "C10": ("model_checking", "Attempt.tla on a literal/ignore(case) corpus with hand-built chain and case-fold references + replay",
         "Reference automata for #[token] are byte chains built by the harness (no regex), for ignore(case) concatenations of simple-case-folded classes; T-munch then decides equality with the captured graph for all inputs, and replay confirms on compiled lexers.",
         "regex-syntax's simple case folding table is the meaning of (?i)", "5 C10"),
 "C11": ("model_checking", "Attempt.tla on a subpattern corpus with own scoped inlining as reference + replay",
         "The reference is built by the harness's own inlining of (?&name) into non-capturing groups with the subpattern's own Unicode flag; T-munch decides equality with the graph the real derive built, for all inputs.",
         "as C01", "5 C11"),
}
NOT_YET = {}

def main():
    props = [json.loads(l) for l in open(os.path.join(VERIF, "properties.jsonl"))]
    checks = []
    na = []
    for p in props:
        pid = p["id"]
        if pid in CHECKS:
            level, tech, text, note, ref = CHECKS[pid]
            checks.append({
                "property_id": pid,
                "quick_cmd": "./check %s --tier quick" % pid,
                "thorough_cmd": "./check %s --tier thorough" % pid,
                "evidence_file": "evidence/%s.json" % pid,
                "replay_cmd_template": "./check replay {path}",
                "engine": "tlc+replay",
                "level_claimed": {"category": level, "text": text, "design_ref": "DESIGN.md " + ref},
                "level_note": note,
                "technique": tech,
            })
        else:
            na.append({"property_id": pid, "reason": NOT_YET.get(pid, "check not built yet in this round (planned: DESIGN.md section 5)")})
    m = {
        "version": 1,
        "setup_cmd": "./setup.sh",
        "hooks": {
            "guard": "--cfg logos_verif",
            "enable": "RUSTFLAGS='--cfg logos_verif' via .cargo/config.toml of the harness crates (harness/.cargo/config.toml, harness/subj-template/.cargo/config.toml)",
            "baseline_off_cmd": "cd /repo && cargo nextest run --workspace --no-fail-fast --tool-config-file pb:/w/lib/nextest.toml --profile pb --test-threads 8 --offline || cargo test --workspace --no-fail-fast --offline",
            "source_commits": ["52790b6", "6e2ce41"],
            "add_only": True,
        },
        "engines": [
            {"name": "attempt", "path": "spec/Attempt.tla", "serves_properties": ["C01", "C02", "C07", "C10", "C11"], "kind_free_text": ENGINE_A},
            {"name": "amb", "path": "spec/Amb.tla", "serves_properties": ["C08"], "kind_free_text": "TLC exploration of the reference product, tie sets vs captured graph errors"},
        ],
        "checks": checks,
        "not_applicable": na,
        "notes": "All checks: exit 0 = held on everything explored, 1 = VIOLATION line(s) with replay file, 2 = tool error. Known findings: KNOWN_FINDINGS.txt.",
    }
    json.dump(m, open(os.path.join(VERIF, "MANIFEST.json"), "w"), indent=1)

if __name__ == "__main__":
    main()
