"""Writes MANIFEST.json from the table below (single source of truth)."""
import json, os
VERIF = os.path.dirname(os.path.dirname(os.path.abspath(__file__)))

ENGINE_A = "Attempt.tla product exploration (captured graph x reference automata x UTF-8) + replay on compiled lexers"
CHECKS = {
 "C01": ("model_checking", "TLC on Attempt.tla (T-munch, T-live) + replay of every product state on 4 lexer builds; TLC on EdgeImpl.tla (edge tests exact) bound to the real helpers through the hook",
         "TLC explores, for every corpus definition, the finite product of the graph captured from the real derive with independently built per-pattern reference automata over byte blocks, so the longest-match/priority comparison covers inputs of every length; every product state is then replayed with concrete bytes on the lexers rustc compiled from the real derive (tail-call/state-machine x unsafe/forbid_unsafe). Corpus-bounded on definitions.",
         "trusts regex-automata/regex-syntax as the meaning of a single pattern, TLC, rustc; definitions limited to corpus + seeded random; bytes of a block not instantiated are assumed to behave like the instantiated ones", "3.4, 5 C01"),
 "C02": ("model_checking", "TLC on Attempt.tla (T-exact, T-live, error outcomes) + replay incl. char-boundary rounding",
         "Same exploration as C01; the reference side prescribes for every product state and next block the error span (first non-viable byte, at least one byte, rounded up to a char boundary) and the replay compares it with the real lexers, multi-byte characters included.",
         "as C01", "3.4, 5 C02"),
 "C07": ("model_checking", "TLC on Attempt.tla (T-part: Det) + replay of new_partial on every product-state prefix",
         "For every product state the specification decides from the reference automata alone whether the item is determined by the prefix (Det); the real partial lexer is run on the concrete prefix of every product state and must return None exactly when it is not determined (look-around definitions may be one byte late).",
         "as C01; chunk schedules longer than one split are covered by the sequence-level engine when built", "3.4 T-part, 5 C07"),
 "C08": ("model_checking", "TLC on Amb.tla (reachable top-priority tie sets of the reference product) vs captured Disambiguation errors",
         "TLC enumerates every reachable state of the product of the per-pattern reference automata and collects the sets of patterns tied at top priority; the family of sets must equal what the real derive reported, in both directions, and the diagnostic must name every member.",
         "priorities as captured; regex-automata as pattern meaning", "3.4 T-amb, 5 C08"),
 "C10": ("model_checking", "Attempt.tla on a literal/ignore(case) corpus with hand-built chain and case-fold references + replay",
         "Reference automata for #[token] are byte chains built by the harness (no regex), for ignore(case) concatenations of simple-case-folded classes; T-munch then decides equality with the captured graph for all inputs, and replay confirms on compiled lexers.",
         "regex-syntax's simple case folding table is the meaning of (?i)", "5 C10"),
 "C11": ("model_checking", "Attempt.tla on a subpattern corpus with own scoped inlining as reference + replay",
         "The reference is built by the harness's own inlining of (?&name) into non-capturing groups with the subpattern's own Unicode flag; T-munch decides equality with the graph the real derive built, for all inputs.",
         "as C01", "5 C11"),
}
CHECKS.update({
 "C03": ("model_checking", "TLC on LexSpec.tla (Progress, Ordered, Gaps, EndsAtLen, Variant, <>done under WF) + replay + LexTrace trace validation",
         "The reference lexer is a TLA+ state machine (one step per next() call); TLC checks tiling, strict progress and termination (liveness under weak fairness) for every input up to a length bound over every corpus definition, and every behaviour is replayed on the compiled lexers, which must return exactly those items and then None on every further call; recorded hook traces of random inputs are validated against LexTrace.tla; definitions with a nullable pattern must be rejected.",
         "input length bounded at sequence level (per-attempt claims are unbounded, C01); corpus-bounded definitions", "3.3, 5 C03"),
 "C04": ("model_checking", "TLC on LexSpec.tla (Boundaries), Attempt.tla (T-utf8), RefUtf8.tla (acceptance: every pattern, and every subpattern on its own through twin definitions) + replay with slice()/remainder() checks + LexTrace endb conjunct",
         "UTF-8 validity is part of the product state (Attempt) and of the explicit inputs (LexSpec, multi-byte characters in every alphabet); the driver compares slice() and remainder() with source[span] after every call in default and forbid_unsafe builds; RefUtf8.tla decides per pattern whether it can match invalid UTF-8 and the derive must have rejected such str-mode definitions.",
         "as C01/C03", "3.4 T-utf8, 5 C04"),
 "C05": ("model_checking", "LexTrace.tla Read/End/EndB conjuncts on hooked reads of exactly-sized heap inputs; SourceRead.tla + replay of Source::read; build equality; every replay repeated with adversarial bytes next to the source",
         "Every read the generated code issues goes through LexerInternal::read (hooked): the trace spec requires Some exactly when offset+size <= len, for inputs of every length around the 8-byte batch allocated exactly; SourceRead.tla checks the checked_add-shaped bounds rule against unbounded arithmetic for a small word and every case is replayed on the public Source::read of str, [u8] and Deref wrappers (offsets near usize::MAX included); default, forbid_unsafe, debug and release builds must produce identical traces.",
         "an access that bypasses LexerInternal::read / Lexer::span (e.g. a changed Chunk::from_ptr reading more than SIZE) is invisible to a TLA+ trace check; stated as assumption, a sanitizer would be needed", "5 C05"),
 "C06": ("model_checking", "same TLC-generated behaviours and validated traces on tail-call and state-machine builds + stack probe on long inputs",
         "Every behaviour replayed for C01-C03/C07 and every validated trace is produced by both code generators and must be identical event by event; stack use of the state-machine lexer is measured at the runtime hook for inputs of 10^3..10^6 bytes (one long token, 10^5 consecutive skips, late accepts) and must not depend on the length.",
         "stack use measured at hook events only", "5 C06"),
 "C12": ("model_checking", "TLC on Modes.tla (SameInBothModes) over twin definitions + replay of both variants + RefUtf8.tla",
         "Every str-acceptable corpus definition is captured twice (str, utf8=false); TLC checks on the reference lexer that both yield the same Ok items and error bytes for every enumerated valid UTF-8 input; both real lexers are replayed against LexSpec and compared with each other.",
         "as C03", "5 C12"),
 "C13": ("model_checking", "TLC on Callbacks.tla (Decide table incl. bump before every kind of decision, SkipTransparent, PartialIsPrefix) + replay of items and callback invocation logs on ordinary and partial lexers",
         "The documented callback table is a TLA+ operator (Decide); subject callbacks implement the same pure decisions; expected items (with payloads and error values) and the list of callback invocations with spans are replayed on four builds.",
         "callback decisions depend on the match length only; 8 hand-written definitions", "5 C13"),
 "C14": ("model_checking", "TLC on LexerAPI.tla (all reachable states of two lexer slots over two source buffers: next, bump, clone, clone_from, morph, spanned, fresh lexer) + seeded TLC simulation of longer histories + replay of one history per state x operation; ApiTrace.tla: recorded random call sequences of the real API validated against LexerAPI.tla",
         "TLC explores every reachable state of the API state machine (next, bump, clone, morph, spanned over two slots and two token types) and the harness replays a history reaching each state followed by each enabled operation against the real API, comparing results, spans, extras and slice()/remainder() equations.",
         "three hand-written pairs of definitions; inputs up to 3-4 characters", "3.6, 5 C14"),
 "C15": ("model_checking", "TLC on LexerAPI.tla (SpanInv; Bump with every n incl. overflow) + replay on debug/release x default/forbid_unsafe; ApiTrace.tla: recorded random call sequences (bump with valid, invalid and overflowing n) validated against LexerAPI.tla with SpanInv as an invariant of the trace specification",
         "Bump is an action for every n up to len+2 and for usize::MAX-1, usize::MAX; SpanInv is a TLC invariant; the real bump is called inside catch_unwind in debug and release builds and the lexer must be unchanged after a panic and usable afterwards.",
         "two huge values stand for all overflowing n", "3.6, 5 C15"),
 "C09": ("exploration", "TLC enumeration of regex ASTs with Complexity (Regex.tla, LiteralNotBeaten checked) replayed against captured leaf priorities",
         "The documented rule is a TLA+ function over an AST grammar; TLC enumerates all ASTs to depth 2 and checks the 'therefore' clause on each; the real derive's priority for each rendered pattern must equal it.",
         "AST depth 2 over a 3-character alphabet", "3.2, 5 C09"),
 "C16": ("exploration", "GenTrace.tla validation of output digests recorded from threads x processes x both generators",
         "generate() and strip_attributes() are run for every corpus definition on several threads of several processes (fresh hash seeds) with both code generators; the digest trace is accepted by GenTrace.tla only if every key has one value.",
         "hash seeds are sampled, not enumerated", "5 C16"),
 "C17": ("exploration", "TLC enumeration of enum sources (derive lists, attribute placement, item shapes: visibility, generics, look-alike and field attributes, discriminants) and of write / check / --format / damage histories (Cli.tla) replayed on the real logos-cli binary",
         "Cli.tla specifies what must remain of the derive lists and how the output file evolves; every enumerated source and history is executed with the real binary and compared (stdout parsed with syn; impl part equal to generate()).",
         "fixed enum body; --format not exercised; damage to the output file is one of five kinds", "3.9, 5 C17"),
 "C18": ("exploration", "TLC enumeration of argument / item permutations (Attr.tla, tokenizer model refines grammar) replayed on the real derive",
         "Every permutation of every subset of named arguments and of #[logos(...)] items is run through the real derive and must give the same verdict, leaves, priorities and graph as the canonical order; TLC also checks the model of the attribute tokenizer against the abstract grammar.",
         "fixed argument values", "3.8, 5 C18"),
 "C19": ("exploration", "TLC enumeration of enum inputs with verdicts (Derive.tla) replayed through generate() under catch_unwind and through rustc",
         "Derive.tla assigns Accept/Reject to a product grammar of variant shapes, attribute forms and enum-level forms (18 200 inputs); the real derive must never panic and must agree with the verdict, as a library and as a real proc macro on stable rustc.",
         "bounded grammar of inputs", "3.8, 5 C19"),
 "C20": ("model_checking", "LexTrace.tla Read conjuncts (monotone offsets, 4x+8 bound) on recorded traces incl. long adversarial inputs",
         "Every hooked read of every traced run must not move backwards within an attempt and the number of reads is bounded linearly in the bytes examined; nested-repetition definitions are run on inputs of 10^4..10^5 bytes.",
         "traces are sampled inputs; the bound constant 4x+8 is the specification's", "5 C20"),
})
NOT_YET = {}

def main():
    props = [json.loads(l) for l in open(os.path.join(VERIF, "properties.jsonl"))]
    checks = []
    na = []
    for p in props:
        pid = p["id"]
        if pid in CHECKS:
            level, tech, text, note, ref = CHECKS[pid]
            checks.append({
                "property_id": pid,
                "quick_cmd": "./check %s --tier quick" % pid,
                "thorough_cmd": "./check %s --tier thorough" % pid,
                "evidence_file": "evidence/%s.json" % pid,
                "replay_cmd_template": "./check replay {path}",
                "engine": "tlc+replay",
                "level_claimed": {"category": level, "text": text, "design_ref": "DESIGN.md " + ref},
                "level_note": note,
                "technique": tech,
            })
        else:
            na.append({"property_id": pid, "reason": NOT_YET.get(pid, "check not built yet in this round (planned: DESIGN.md section 5)")})
    m = {
        "version": 1,
        "setup_cmd": "./setup.sh",
        "hooks": {
            "guard": "--cfg logos_verif",
            "enable": "RUSTFLAGS='--cfg logos_verif' via .cargo/config.toml of the harness crates (harness/.cargo/config.toml, harness/subj-template/.cargo/config.toml)",
            "baseline_off_cmd": "cd /repo && cargo nextest run --workspace --no-fail-fast --tool-config-file pb:/w/lib/nextest.toml --profile pb --test-threads 8 --offline || cargo test --workspace --no-fail-fast --offline",
            "source_commits": ["52790b6", "6e2ce41", "3b14951"],
            "add_only": True,
        },
        "engines": [
            {"name": "attempt", "path": "spec/Attempt.tla", "serves_properties": ["C01", "C02", "C07", "C10", "C11"], "kind_free_text": ENGINE_A},
            {"name": "amb", "path": "spec/Amb.tla", "serves_properties": ["C08"], "kind_free_text": "TLC exploration of the reference product, tie sets vs captured graph errors"},
            {"name": "lexspec", "path": "spec/LexSpec.tla", "serves_properties": ["C03", "C04", "C05", "C06", "C07", "C12", "C20"], "kind_free_text": "reference lexer on explicit inputs (sequence level, liveness, chunked protocol) + replay; Modes.tla, RefUtf8.tla"},
            {"name": "graphlex", "path": "spec/GraphLex.tla", "serves_properties": ["C01", "C03", "C05", "C06", "C20"], "kind_free_text": "micro-step model of the generated code, model-checked against the reference lexer; GraphTrace.tla validates recorded traces against it step by step (drift level)"},
            {"name": "edgeimpl", "path": "spec/EdgeImpl.tla", "serves_properties": ["C01", "C02"], "kind_free_text": "the generator's edge tests (comparisons with holes, count_ops, tables, can_error, merge): algorithm transcribed, exactness checked by TLC over boundary-biased classes, every case compared with the real helpers through the hook; a wrong helper is confirmed on compiled lexers"},
            {"name": "compile", "path": "spec/Compile.tla", "serves_properties": ["C01"], "kind_free_text": "the four passes of Graph::new transcribed and compared with the hook's pass snapshots (drift level); Attempt.tla on every snapshot"},
            {"name": "regex", "path": "spec/Regex.tla", "serves_properties": ["C09", "C01"], "kind_free_text": "regex ASTs: Complexity (priorities), Matches (textbook semantics, RegexAgree against the real lexers)"},
            {"name": "lextrace", "path": "spec/LexTrace.tla", "serves_properties": ["C03", "C04", "C05", "C06", "C20"], "kind_free_text": "trace validation of recorded hook events (code -> spec)"},
            {"name": "apitrace", "path": "spec/ApiTrace.tla", "serves_properties": ["C14", "C15"], "kind_free_text": "trace validation of recorded API call sequences (code -> spec): every call must be an operation LexerAPI.tla enables, with the recorded result and observation"},
            {"name": "api", "path": "spec/LexerAPI.tla", "serves_properties": ["C14", "C15"], "kind_free_text": "API state machine over lexer objects and two source buffers (exhaustive to a bound + seeded simulation beyond it) + history replay"},
            {"name": "callbacks", "path": "spec/Callbacks.tla", "serves_properties": ["C13"], "kind_free_text": "callback decision table, bump inside callbacks, partial lexers + replay"},
            {"name": "front", "path": "spec/Derive.tla", "serves_properties": ["C09", "C16", "C17", "C18", "C19"], "kind_free_text": "TLC-enumerated programs (Derive, Attr, Regex, Cli, GenTrace) replayed on the real derive / rustc / logos-cli"},
        ],
        "checks": checks,
        "not_applicable": na,
        "notes": "All checks: exit 0 = held on everything explored, 1 = VIOLATION line(s) with replay file, 2 = tool error. Known findings: KNOWN_FINDINGS.txt.",
    }
    json.dump(m, open(os.path.join(VERIF, "MANIFEST.json"), "w"), indent=1)

if __name__ == "__main__":
    main()
