"""Shared machinery: hashing of the tree under test, building the harness, capturing graphs,
building the compiled subjects, running TLC, running subjects, evidence and verdict output."""
import hashlib
import json
import os
import re
import shutil
import subprocess
import sys
import time

VERIF = os.path.dirname(os.path.dirname(os.path.abspath(__file__)))
REPO = os.environ.get("VERIF_REPO", "/repo")
HARNESS = os.path.join(VERIF, "harness")
SPEC = os.path.join(VERIF, "spec")
WORK = os.path.join(VERIF, "work")
TLA_JAR = "/opt/veriftools/tla/tla2tools.jar:/opt/veriftools/tla/CommunityModules-deps.jar"

ENV_BASE = dict(os.environ, CARGO_NET_OFFLINE="true", CARGO_TERM_COLOR="never")


class ToolError(Exception):
    pass


def log(*a):
    print(*a, file=sys.stderr, flush=True)


def sha(*parts):
    h = hashlib.sha256()
    for p in parts:
        if isinstance(p, str):
            p = p.encode()
        h.update(p)
        h.update(b"\0")
    return h.hexdigest()


_repo_hash = None


def repo_hash():
    """Hash of every source file of the tree under test (tracked or not, minus ignored)."""
    global _repo_hash
    if _repo_hash is None:
        out = subprocess.run(["git", "-C", REPO, "ls-files", "-co", "--exclude-standard", "-z"],
                             capture_output=True, check=True).stdout
        files = sorted(f for f in out.decode().split("\0") if f and not f.startswith(("book/", "tests/benches", "fuzz/")))
        h = hashlib.sha256()
        for f in files:
            p = os.path.join(REPO, f)
            if os.path.isfile(p):
                h.update(f.encode() + b"\0")
                with open(p, "rb") as fh:
                    h.update(hashlib.sha256(fh.read()).digest())
        _repo_hash = h.hexdigest()[:20]
    return _repo_hash


def harness_hash():
    h = hashlib.sha256()
    for root in (os.path.join(HARNESS, "gen"), os.path.join(HARNESS, "subj-template"), SPEC, os.path.join(VERIF, "lib")):
        for dp, dn, fn in sorted(os.walk(root)):
            dn.sort()
            for f in sorted(fn):
                if f in ("props.py", "checks.py", "manifest_gen.py", "front.py", "api.py"):
                    continue        # post-processing only: no effect on the cached engine results
                if f.endswith((".rs", ".toml", ".tla", ".cfg", ".py")):
                    with open(os.path.join(dp, f), "rb") as fh:
                        h.update(f.encode() + hashlib.sha256(fh.read()).digest())
    return h.hexdigest()[:12]


def workdir():
    d = os.path.join(WORK, "tree-" + repo_hash())
    os.makedirs(d, exist_ok=True)
    return d


def run(cmd, cwd=None, env=None, timeout=None, input=None, check=True):
    t0 = time.time()
    p = subprocess.run(cmd, cwd=cwd, env=env or ENV_BASE, capture_output=True, text=True, timeout=timeout, input=input)
    if check and p.returncode != 0:
        raise ToolError("command failed (%s): %s\n%s\n%s" % (p.returncode, " ".join(cmd), p.stdout[-3000:], p.stderr[-6000:]))
    return p


# ------------------------------------------------------------------------------------------
# gen

_gen_bin = {}


def alt_tag():
    """'' for /repo; a short tag when VERIF_REPO points at another checkout (seeded-change runs)"""
    return "" if REPO == "/repo" else "-alt" + sha(REPO)[:6]


def harness_dir():
    """The harness workspace; for an alternative checkout a copy with the path dependency rewritten."""
    if REPO == "/repo":
        return HARNESS
    d = os.path.join(WORK, "harness" + alt_tag())
    shutil.rmtree(d, ignore_errors=True)
    shutil.copytree(HARNESS, d, ignore=shutil.ignore_patterns("subj-template"))
    for f in ("gen/Cargo.toml",):
        p = os.path.join(d, f)
        t = open(p).read().replace('"/repo/', '"%s/' % REPO)
        with open(p, "w") as fh:
            fh.write(t)
    return d


def build_gen(features=()):
    key = tuple(features)
    if key in _gen_bin:
        return _gen_bin[key]
    tdir = os.path.join(WORK, "target" + alt_tag() + ("-" + "-".join(features) if features else ""))
    cmd = ["cargo", "build", "-p", "gen", "--offline", "--target-dir", tdir]
    if features:
        cmd += ["--features", ",".join(features)]
    run(cmd, cwd=harness_dir(), timeout=1800)
    b = os.path.join(tdir, "debug", "gen")
    if not os.path.exists(b):
        raise ToolError("gen binary missing")
    _gen_bin[key] = b
    return b


def capture(defs, name, stages=False):
    """Run the real derive on `defs` (list of dicts) with the graph hook on.
    Returns (defs_path, metas) ; cached per tree hash + corpus hash."""
    for i, d in enumerate(defs):
        d["enum_name"] = "D%d" % (i + 1)
    blob = "\n".join(json.dumps(d, sort_keys=True) for d in defs) + "\n"
    key = sha(blob, harness_hash(), str(stages))[:16]
    out = os.path.join(workdir(), "cap-%s-%s" % (name, key))
    done = os.path.join(out, "DONE")
    if not os.path.exists(done):
        shutil.rmtree(out, ignore_errors=True)
        os.makedirs(out)
        with open(os.path.join(out, "in.ndjson"), "w") as f:
            f.write(blob)
        gen = build_gen()
        cmd = [gen, "capture", os.path.join(out, "in.ndjson"), out]
        if stages:
            cmd.append("--stages")
        run(cmd, timeout=3600)
        open(done, "w").close()
    metas = [json.loads(l) for l in open(os.path.join(out, "meta.ndjson"))]
    return os.path.join(out, "defs.ndjson"), metas, out


# ------------------------------------------------------------------------------------------
# subjects

CFGS = {
    "tc": ([], False),
    "tc_safe": (["forbid_unsafe"], False),
    "sm": (["sm"], False),
    "sm_safe": (["sm", "forbid_unsafe"], False),
    "tc_rel": ([], True),
    "sm_rel": (["sm"], True),
    "tc_safe_rel": (["forbid_unsafe"], True),
}


def subject_source(metas, extra_src="", pairs=()):
    """defs.rs of the subjects crate: every accepted definition as a real derived enum."""
    parts = ["use logos::Logos;\n"]
    arms = []
    for m in metas:
        if not m["accepted"]:
            continue
        parts.append(m["src"])
        fn = "run_str" if m["utf8"] else "run_bytes"
        arms.append("        %d => crate::%s::<D%d>(req.bytes, req, out)," % (m["idx"], fn, m["idx"]))
    parts.append(extra_src)
    api_arms = []
    for (pidx, ia, ib, is_str) in pairs:
        mkf = "|b: &'_ [u8]| std::str::from_utf8(b).ok()" if is_str else "|b: &'_ [u8]| Some(b)"
        parts.append("fn mk_p%d<'a>(b: &'a [u8]) -> Option<&'a %s> { %s }" % (pidx, "str" if is_str else "[u8]", "std::str::from_utf8(b).ok()" if is_str else "Some(b)"))
        parts.append("crate::api_pair!(api_p%d, D%d, D%d, mk_p%d);" % (pidx, ia, ib, pidx))
        api_arms.append("        %d => api_p%d(bytes, bytes2, partial, script, out)," % (pidx, pidx))
    parts.append("pub fn dispatch_api(pidx: usize, bytes: &[u8], bytes2: &[u8], partial: bool, script: &str, out: &mut String) -> bool {\n    match pidx {\n"
                 + "\n".join(api_arms) + "\n        _ => return false,\n    }\n    true\n}\n")
    parts.append("pub fn dispatch(idx: usize, req: &crate::Req, out: &mut String) -> bool {\n    match idx {\n"
                 + "\n".join(arms) + "\n        _ => return false,\n    }\n    true\n}\n")
    return "\n".join(parts)


def build_subjects(metas, cfgs, name, extra_src="", template="subj-template", pairs=()):
    """Build the subjects crate for each configuration in parallel; returns {cfg: binary}."""
    src = subject_source(metas, extra_src, pairs)
    tdir_src = os.path.join(HARNESS, template)
    tmpl_hash = sha(*[open(os.path.join(dp, f)).read() for dp, dn, fn in sorted(os.walk(tdir_src)) for f in sorted(fn) if not f.endswith(".lock")])
    key = sha(src, tmpl_hash)[:16]
    crate = os.path.join(workdir(), "subj-%s-%s" % (name, key))
    bins = {}
    todo = []
    for c in cfgs:
        b = os.path.join(crate, "bin-" + c)
        bins[c] = b
        if not os.path.exists(b):
            todo.append(c)
    if not todo:
        return bins
    if not os.path.exists(os.path.join(crate, "Cargo.toml")):
        shutil.rmtree(crate, ignore_errors=True)
        shutil.copytree(tdir_src, crate)
        ct = os.path.join(crate, "Cargo.toml")
        ct_text = open(ct).read().replace('path = "/repo"', 'path = "%s"' % REPO)
        with open(ct, "w") as fh:
            fh.write(ct_text)
        shutil.copy(os.path.join(REPO, "Cargo.lock"), os.path.join(crate, "Cargo.lock"))
    with open(os.path.join(crate, "src", "defs.rs"), "w") as f:
        f.write(src)
    procs = []
    for c in todo:
        feats, release = CFGS[c]
        tdir = os.path.join(WORK, "target-subj-" + c + alt_tag())
        cmd = ["cargo", "build", "--offline", "--target-dir", tdir]
        if feats:
            cmd += ["--features", ",".join(feats)]
        if release:
            cmd.append("--release")
        logf = open(os.path.join(crate, "build-%s.log" % c), "w")
        procs.append((c, tdir, release, subprocess.Popen(cmd, cwd=crate, env=ENV_BASE, stdout=logf, stderr=subprocess.STDOUT)))
    for c, tdir, release, p in procs:
        rc = p.wait()
        if rc != 0:
            tail = open(os.path.join(crate, "build-%s.log" % c)).read()[-6000:]
            raise ToolError("subjects build failed for %s:\n%s" % (c, tail))
        shutil.copy(os.path.join(tdir, "release" if release else "debug", "subj"), bins[c])
    return bins


def run_subject(binary, requests, timeout=600):
    """requests: list of strings. Returns list of replies (dict).  A missing reply (the process died:
    stack overflow, abort by the driver's hang watchdog, ...) is reported as {"died": ...} and the run
    continues after it.  A definition (first token of the request) that kills the process three times is
    not run any further in this call: its remaining requests are answered {"died": "skipped ..."}."""
    n = len(requests)
    replies = [None] * n
    deaths = {}
    banned = set()

    def key(line):
        parts = line.split(" ", 2)
        return parts[1] if parts[0] in ("S", "R") and len(parts) > 1 else parts[0]

    i = 0
    while i < n:
        idxs = []
        for j in range(i, n):
            if key(requests[j]) in banned:
                replies[j] = {"died": "skipped after repeated deaths of this definition"}
            else:
                idxs.append(j)
        if not idxs:
            break
        chunk = [requests[j] for j in idxs]
        try:
            p = subprocess.run([binary], input="\n".join(chunk) + "\n", capture_output=True, text=True, timeout=timeout)
            lines = p.stdout.split("\n")
            rc = p.returncode
            err = p.stderr[-300:]
            hung = False
        except subprocess.TimeoutExpired as e:
            out = e.stdout or b""
            if isinstance(out, bytes):
                out = out.decode(errors="replace")
            lines = out.split("\n")
            rc = None
            err = ""
            hung = True
        got = []
        for l in lines:
            if not l.strip():
                continue
            try:
                got.append(json.loads(l))
            except Exception:
                break
        got = got[:len(chunk)]
        for j, rep in zip(idxs, got):
            replies[j] = rep
        if len(got) < len(chunk):
            j = idxs[len(got)]
            replies[j] = {"died": "timeout" if hung else "exit %s" % rc, "stderr": err}
            k = key(requests[j])
            deaths[k] = deaths.get(k, 0) + 1
            if deaths[k] >= 3:
                banned.add(k)
            i = j + 1
        else:
            i = n
    return [r if r is not None else {"died": "not run"} for r in replies]


# ------------------------------------------------------------------------------------------
# TLC

def run_tlc(spec, cfg, env, workers=8, timeout=3000, metaname="tlc", extra=(), xmx="8g", xss=None, deque=False):
    meta = os.path.join(workdir(), "meta-%s-%d" % (metaname, os.getpid()))
    shutil.rmtree(meta, ignore_errors=True)
    jopts = []
    if xss:
        jopts.append("-Xss" + xss)
    if deque:
        jopts.append("-Dtlc2.tool.queue.IStateQueue=StateDeque")
    cmd = ["timeout", str(timeout), "java", "-XX:+UseParallelGC", "-Xmx" + xmx] + jopts + ["-cp", TLA_JAR, "tlc2.TLC",
           "-workers", str(workers), "-metadir", meta, "-cleanup", "-noGenerateSpecTE",
           "-config", os.path.join(SPEC, cfg), os.path.join(SPEC, spec)] + list(extra)
    e = dict(ENV_BASE)
    e.update(env)
    t0 = time.time()
    # TLC's output can be gigabytes of record lines: stream it to a file, keep only the other lines in memory
    raw = meta + ".stdout"
    with open(raw, "w") as fh:
        p = subprocess.run(cmd, cwd=SPEC, env=e, stdout=fh, stderr=subprocess.PIPE, text=True)
    shutil.rmtree(meta, ignore_errors=True)
    rec_path = meta + ".records"
    keep = []
    with open(raw) as fh, open(rec_path, "w") as rf:
        for line in fh:
            if line.startswith('<<"'):
                rf.write(line)
            else:
                keep.append(line)
                if len(keep) > 20000:
                    del keep[:10000]
    os.remove(raw)
    out = "".join(keep)
    res = {"rc": p.returncode, "out": out, "records_path": rec_path, "wall": time.time() - t0, "states": 0, "distinct": 0, "depth": 0}
    m = re.search(r"(\d+) states generated, (\d+) distinct states found", out)
    if m:
        res["states"] = int(m.group(1))
        res["distinct"] = int(m.group(2))
    m = re.search(r"depth of the complete state graph search is (\d+)", out)
    if m:
        res["depth"] = int(m.group(1))
    if p.returncode == 124:
        raise ToolError("TLC timeout on %s" % spec)
    ok = "Model checking completed. No error has been found." in out
    if any(str(x).startswith("-simulate") for x in extra):
        # random simulation: TLC reports the number of traces and stops; an invariant violation is reported as in model checking
        ok = "traces generated" in out and "Error:" not in out and "is violated" not in out
        m = re.search(r"The number of states generated: (\d+)", out)
        if m:
            res["states"] = res["distinct"] = int(m.group(1))
    res["ok"] = ok
    if not ok and "is violated" not in out and "Invariant" not in out and "Postcondition" not in out:
        raise ToolError("TLC failed on %s (rc %s):\n%s\n%s" % (spec, p.returncode, out[-4000:], p.stderr[-2000:]))
    return res


_line_re = re.compile(r'^<<"([A-Z][A-Z0-9_]*)", (?:"([A-Za-z0-9_]+)", )?"(.*)">>$')


def tlc_records(res, only=None):
    """Generator over the <<"TAG", ["sub",] "json">> lines printed by the specifications.
    `res` is the result of run_tlc (records are streamed from its file) or a string."""
    if isinstance(res, dict):
        fh = open(res["records_path"])
    else:
        fh = res.split("\n")
    for line in fh:
        line = line.strip()
        if only and not line.startswith('<<"' + only):
            continue
        m = _line_re.match(line)
        if not m:
            continue
        tag, sub, body = m.groups()
        body = body.replace('\\"', '"').replace("\\\\", "\\")
        try:
            yield (tag, sub, json.loads(body))
        except Exception as ex:
            raise ToolError("unparseable TLC record: %s (%s)" % (line[:200], ex))
    if isinstance(res, dict):
        fh.close()


def drop_records(res):
    try:
        os.remove(res["records_path"])
    except OSError:
        pass


# ------------------------------------------------------------------------------------------
# verdicts and evidence

def known_findings():
    path = os.path.join(VERIF, "KNOWN_FINDINGS.txt")
    known = []
    if os.path.exists(path):
        for l in open(path):
            l = l.strip()
            if l.startswith("known:"):
                m = re.match(r"known:\s+property=(\S+)\s+key=(\S+)\s*(.*)", l)
                if m:
                    known.append({"prop": m.group(1), "key": m.group(2), "text": m.group(3)})
    return known


def finish(prop, tier, seed, level, coverage, violations, t0, assumptions=(), drift=()):
    """violations: list of dicts with at least 'key' (specific failing case) and 'what'.
    Writes evidence, replay files, prints verdict lines and exits."""
    # a check that explored nothing must not report that the property held
    if level == "model_checking":
        empty = not (coverage.get("states", 0) >= 1 and coverage.get("transitions", 0) >= 1 and coverage.get("traces_validated_against_impl", 0) >= 1 and coverage.get("samples"))
    else:
        empty = not (coverage.get("evaluations", 0) >= 1 and coverage.get("distinct_nontrivial", 0) >= 2 and coverage.get("samples"))
    if empty and not violations:
        raise ToolError("check %s explored nothing (coverage %s)" % (prop, {k: coverage.get(k) for k in ("states", "transitions", "traces_validated_against_impl", "evaluations", "distinct_nontrivial")}))
    known = [k for k in known_findings() if k["prop"] == prop]
    edir = os.environ.get("VERIF_EVIDENCE_DIR", os.path.join(VERIF, "evidence"))
    os.makedirs(edir, exist_ok=True)
    new = []
    seen_known = {}
    for v in violations:
        hit = [k for k in known if k["key"] == v["key"]]
        if hit:
            seen_known.setdefault(v["key"], (hit[0], v))
        else:
            new.append(v)
    for key, (k, v) in sorted(seen_known.items()):
        print("KNOWN-FINDING: property=%s key=%s %s" % (prop, key, k["text"] or v.get("what", "")))
    for dline in drift:
        print("SPEC-DRIFT: property=%s %s" % (prop, dline))
    ev = {
        "property_id": prop, "tier": tier, "seed": seed, "level": level,
        "coverage": coverage, "assumptions": list(assumptions),
        "wall_s": round(time.time() - t0, 2), "violations": len(new),
        "known_findings_seen": sorted(seen_known.keys()),
        "tree": repo_hash(),
    }
    with open(os.path.join(edir, prop + ".json"), "w") as f:
        json.dump(ev, f, indent=1, sort_keys=True)
    if new:
        rdir = os.path.join(VERIF, "work", "replay")
        os.makedirs(rdir, exist_ok=True)
        shown = {}
        for v in new:
            shown.setdefault(v["key"], v)
        for i, (key, v) in enumerate(sorted(shown.items())[:20]):
            path = os.path.join(rdir, "%s-%s-%d.json" % (prop, repo_hash()[:8], i))
            with open(path, "w") as f:
                json.dump(dict(v, property=prop), f, indent=1, sort_keys=True, default=str)
            print("VIOLATION property=%s replay=%s" % (prop, path))
            print("  key=%s %s" % (key, v.get("what", "")))
        sys.exit(1)
    print("OK property=%s tier=%s wall=%.1fs" % (prop, tier, time.time() - t0))
    sys.exit(0)
