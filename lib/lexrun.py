"""Engine B: LexSpec.tla (reference lexer on explicit inputs, sequence-level invariants, liveness)
and replay of every enumerated input on the compiled lexers: one-shot, partial on every prefix,
chunked user protocol."""
import json
import os
import random
import time

from pipeline import (ToolError, build_subjects, capture, harness_hash, log, run_subject, run_tlc, sha,
                      tlc_records, workdir)

EXTRA_STR = ["a", "b", "z", "0", " ", "\n", "é", "€", "😀", "A", "_"]
EXTRA_BYTES = [0x61, 0x62, 0x20, 0x30, 0x0A, 0x80, 0xC3, 0xFF, 0x00]


def pat_chars(p):
    if "s" in p:
        return list(p["s"])
    return [bytes([b]) for b in p["b"]]


def choose_chars(tdef, meta, k, rng):
    """Alphabet of a definition: up to k concrete characters (as byte strings), distinct as block
    sequences, preferring blocks the graph reacts to; at least one 'other' and, in str mode, one
    multi-byte character when available."""
    is_str = meta["utf8"]
    byte2block = {}
    for bi, ranges in enumerate(meta["blocks"]):
        for lo, hi in ranges:
            for b in range(lo, hi + 1):
                byte2block[b] = bi + 1
    cands = []
    d = meta["def"]
    pats = [a["pat"] for a in d["skips"]] + [a["pat"] for v in d["vars"] for a in v["attrs"]] + [s["pat"] for s in d["subs"]]
    for p in pats:
        for c in pat_chars(p):
            cands.append(c.encode() if isinstance(c, str) else c)
    if is_str:
        cands += [c.encode() for c in EXTRA_STR]
        # neighbours of class bounds: one representative of every ASCII block
        for bi, ranges in enumerate(meta["blocks"]):
            lo = ranges[0][0]
            if lo < 0x80:
                cands.append(bytes([lo]))
    else:
        cands += [bytes([b]) for b in EXTRA_BYTES]
        for bi, ranges in enumerate(meta["blocks"]):
            cands.append(bytes([ranges[0][0]]))
    edge = tdef["g"]["edge"]
    interest = [0] * (len(meta["blocks"]) + 1)
    for row in edge:
        for x, t in enumerate(row):
            if t:
                interest[x + 1] += 1
    seen = {}
    for c in cands:
        if is_str:
            try:
                c.decode()
            except UnicodeDecodeError:
                continue
            if len(c.decode()) != 1:
                continue
        elif len(c) != 1:
            continue
        bs = tuple(byte2block[b] for b in c)
        if bs not in seen:
            seen[bs] = c
    items = sorted(seen.items(), key=lambda kv: (-sum(interest[x] for x in kv[0]), kv[0]))
    hot = [it for it in items if sum(interest[x] for x in it[0]) > 0]
    cold = [it for it in items if sum(interest[x] for x in it[0]) == 0]
    rng.shuffle(hot)
    hot.sort(key=lambda kv: -sum(interest[x] for x in kv[0]))
    # blocks on which the graph acts alike (same column of edge targets) are represented once before any of
    # them is represented twice: otherwise the many blocks of one wide class crowd out the one block of another
    def column(it):
        return tuple(tuple(row[x - 1] for row in edge) for x in it[0])
    first, later, cols = [], [], set()
    for it in hot:
        c = column(it)
        if c in cols:
            later.append(it)
        else:
            cols.add(c)
            first.append(it)
    hot = first + later
    pick = []
    multi = [it for it in hot + cold if len(it[0]) > 1]
    if is_str and multi:
        pick.append(multi[0])
    if cold:
        c1 = [it for it in cold if len(it[0]) == 1]
        pick.append((c1 or cold)[0])
    for it in hot:
        if len(pick) >= k:
            break
        if it not in pick:
            pick.append(it)
    for it in cold:
        if len(pick) >= k:
            break
        if it not in pick:
            pick.append(it)
    return [(list(bs), list(c)) for bs, c in pick[:k]]


def exp_items(meta, items):
    out = []
    for k, leaf, s, e, weak in items:
        if k == "none":
            out.append(("none", None, s, e, weak))
        elif k == "err":
            out.append(("err", None, s, e, weak))
        else:
            out.append(("ok", meta["variants"][leaf - 1], s, e, weak))
    return out


def real_items(rep):
    if "panic" in rep or "died" in rep or rep.get("badutf8") or rep.get("unknown"):
        return None
    return [(it[0], it[1] if it[0] == "ok" else None, it[2], it[3]) for it in rep["items"]]


def compare_seq(exp, real, fin, allow_weak):
    """exp: list of 5-tuples ending with a none ; real: list of 4-tuples, fin=[s,e].  Returns None if
    fine, else a description."""
    body = exp[:-1]
    none = exp[-1]
    i = 0
    while i < len(body) and i < len(real):
        if body[i][:4] != real[i]:
            if allow_weak and body[i][4]:
                break
            return "item %d: expected %s got %s" % (i, body[i][:4], real[i])
        i += 1
    if len(real) > len(body):
        return "extra item %s after the expected end" % (real[len(body)],)
    if i < len(body):
        # real stopped early
        if len(real) > i:
            return "item %d: expected %s got %s" % (i, body[i][:4], real[i])
        if not (allow_weak and body[i][4]):
            return "stopped early: expected item %s, got None at %s" % (body[i][:4], fin)
        prev_end = real[-1][3] if real else 0
        if not (fin[0] == fin[1] and prev_end <= fin[0] <= body[i][2]):
            return "None position %s not between %d and %d" % (fin, prev_end, body[i][2])
        return None
    if fin[0] != fin[1]:
        return "span at None not empty: %s" % (fin,)
    if fin[0] != none[2]:
        if allow_weak and none[4] and (real[-1][3] if real else 0) <= fin[0] <= none[2]:
            return None
        return "None position: expected %d got %s" % (none[2], fin)
    return None


def lex_run(name, defs, tier, seed, cfgs, maxlen, nchars, tlc_workers=8, liveness=True):
    t0 = time.time()
    defs_path, metas, capdir = capture(defs, name)
    rng = random.Random(seed + 7)
    tla_defs = [json.loads(l) for l in open(defs_path)]
    char_bytes = {}
    by_id = {m["id"]: m for m in metas}
    for td, m in zip(tla_defs, metas):
        td["twin"] = 0
        if td["accepted"] and td["hasGraph"] and td["refsOk"]:
            cs = choose_chars(td, m, nchars, rng)
            td["chars"] = [c[0] for c in cs]
            char_bytes[td["idx"]] = [c[1] for c in cs]
        else:
            td["chars"] = []
    # C12 twins: the byte-mode twin of a str definition uses the same characters
    for td, m in zip(tla_defs, metas):
        tw = [t for t in m["tags"] if t.startswith("twin:")]
        if not tw:
            continue
        o = by_id.get(tw[0][5:])
        if o is None:
            continue
        otd = tla_defs[o["idx"] - 1]
        if not (td["chars"] and otd["chars"]):
            continue
        b2b = {}
        for bi, ranges in enumerate(m["blocks"]):
            for lo, hi in ranges:
                for b in range(lo, hi + 1):
                    b2b[b] = bi + 1
        cb = char_bytes[otd["idx"]]
        char_bytes[td["idx"]] = cb
        td["chars"] = [[b2b[x] for x in c] for c in cb]
        td["twin"] = otd["idx"]
        otd["twin"] = td["idx"]
    blob = "\n".join(json.dumps(td) for td in tla_defs) + "\n"
    key = sha(blob, harness_hash(), tier, str(seed), ",".join(cfgs), str(maxlen))[:16]
    cache = os.path.join(workdir(), "lex-%s-%s.json" % (name, key))
    if os.path.exists(cache):
        return json.load(open(cache))
    lex_defs = os.path.join(capdir, "defs_lex_%s.ndjson" % key)
    with open(lex_defs, "w") as f:
        f.write(blob)
    meta_by_idx = {m["idx"]: m for m in metas}
    cfgfile = "LexSpec.cfg" if liveness else "LexSpecSafety.cfg"
    # LexSpec's invariants are statements about the REFERENCE meaning of every definition the derive accepted.  On
    # the unchanged tree they hold for all of them.  If one fails, the derive has accepted a definition whose meaning
    # breaks it (e.g. a pattern that matches bytes that are not UTF-8 in a str lexer -> Boundaries): that definition
    # is reported (kind spec_invariant), left out, and the exploration is repeated for the others.
    import re as _re
    spec_findings = []
    for attempt in range(6):
        res = run_tlc("LexSpec.tla", cfgfile, {"DEFS": lex_defs, "MAXLEN": str(maxlen), "EMIT": "1"}, workers=tlc_workers,
                      metaname="lex-" + name, timeout=3000 if tier == "quick" else 12000, xss="512m")
        if res["ok"]:
            break
        mi = _re.search(r"Invariant (\w+) is violated", res["out"])
        md = _re.findall(r"/\\ d = (\d+)", res["out"])
        if not mi or not md or attempt == 5:
            raise ToolError("LexSpec.tla: TLC reports a violation of the specification's own invariants:\n" + res["out"][-3000:])
        bad = int(md[-1])
        ms = _re.findall(r"/\\ src = (<<[^\n]*>>)", res["out"])
        spec_findings.append({"def": meta_by_idx[bad]["id"], "cfg": "reference", "kind": "spec_invariant", "mode": "full", "input": ms[-1] if ms else "",
                              "splits": None, "expected": "LexSpec invariant %s for every accepted definition" % mi.group(1), "got": "violated by the reference meaning of this definition",
                              "why": "the derive accepted a definition whose meaning violates %s" % mi.group(1), "src": meta_by_idx[bad]["src"], "invariant": mi.group(1)})
        tla_defs[bad - 1]["chars"] = []          # Sel leaves it out
        with open(lex_defs, "w") as f:
            f.write("\n".join(json.dumps(td) for td in tla_defs) + "\n")
    # the model of the generated code (GraphLex.tla) on the same definitions and alphabets, both modes
    gl = run_tlc("GraphLex.tla", "GraphLex.cfg", {"DEFS": lex_defs, "MAXLEN": str(max(2, maxlen - 1))}, workers=tlc_workers,
                 metaname="graphlex-" + name, timeout=3000 if tier == "quick" else 12000, xss="512m")
    graphlex = {"states": gl["states"], "distinct": gl["distinct"], "depth": gl["depth"], "wall": gl["wall"], "ok": gl["ok"],
                "tail": "" if gl["ok"] else gl["out"][-2500:]}
    bins = build_subjects(metas, cfgs, name)
    has_twins = any(td["twin"] for td in tla_defs)
    look_of = {td["idx"]: any(rf["look"] for rf in td["ref"]) for td in tla_defs}
    findings = list(spec_findings)
    samples = []
    counts = {"runs": 0, "requests": 0, "more": 0, "explored": set()}
    twin_items = {}      # (def idx, input hex) -> items of the last configuration, full mode, definitions with a twin only

    def add(f):
        if len(findings) < 3000:
            findings.append(f)
        else:
            counts["more"] += 1

    def requests_of(run):
        m = meta_by_idx[run["d"]]
        cb = char_bytes[run["d"]]
        data = []
        for c in run["chars"]:
            data.extend(cb[c - 1])
        hexd = bytes(data).hex()
        out = [("%d f %s" % (run["d"], hexd), {"d": run["d"], "mode": "full", "data": hexd, "exp": exp_items(m, run["items"])})]
        n = len(data)
        parts = run["parts"]
        if isinstance(parts, dict):
            parts = [parts[str(k)] for k in range(0, n + 1)]
        bounds = [k for k in range(0, n + 1) if parts[k]]
        for k in bounds:
            out.append(("%d p %s" % (run["d"], bytes(data[:k]).hex()),
                        {"d": run["d"], "mode": "partial", "data": bytes(data[:k]).hex(), "exp": exp_items(m, parts[k])}))
        inner = [k for k in bounds if 0 < k < n]
        scheds = [[k] for k in inner] + [[a, b] for a in inner for b in inner if a < b]
        if len(scheds) > 12:
            scheds = rng.sample(scheds, 12)
        for ks in scheds:
            out.append(("%d c %s %s" % (run["d"], hexd, ",".join(map(str, ks))),
                        {"d": run["d"], "mode": "chunked", "data": hexd, "splits": ks, "exp": exp_items(m, run["items"])}))
        return out

    def flush(batch):
        if not batch:
            return
        lines = [r[0] for r in batch]
        for ci, c in enumerate(cfgs):
            replies = run_subject(bins[c], lines, timeout=1800)
            if len(replies) != len(lines):
                raise ToolError("subject %s returned %d replies for %d requests" % (c, len(replies), len(lines)))
            for (line, info), rep in zip(batch, replies):
                m = meta_by_idx[info["d"]]
                real = real_items(rep)
                if "guard" in rep:
                    add({"def": m["id"], "cfg": c, "kind": "guard_diff", "mode": info["mode"], "input": info["data"], "splits": info.get("splits"),
                         "expected": "the same result whatever bytes lie next to the source in memory", "got": {"variant": rep["guard"], "with_neighbours": rep.get("guard_got", "")[:300]}, "why": "result depends on bytes outside the source", "src": m["src"]})
                if rep.get("badslice"):
                    add({"def": m["id"], "cfg": c, "kind": "badslice", "mode": info["mode"], "input": info["data"], "splits": info.get("splits"),
                         "expected": "slice()==source[span()] and remainder()==source[span().end..]", "got": rep, "why": "accessor mismatch", "src": m["src"]})
                if real is None:
                    add({"def": m["id"], "cfg": c, "kind": "crash", "mode": info["mode"], "input": info["data"], "splits": info.get("splits"),
                         "expected": info["exp"], "got": rep, "why": "crash", "src": m["src"]})
                    continue
                if has_twins and ci == len(cfgs) - 1 and info["mode"] == "full" and tla_defs[info["d"] - 1]["twin"]:
                    twin_items[(info["d"], info["data"])] = [tuple(it[:4]) for it in rep["items"]]
                why = compare_seq(info["exp"], real, rep["fin"], allow_weak=(info["mode"] != "full" and look_of[info["d"]]))
                if why is None and info["mode"] == "full":
                    ag = rep.get("again")
                    if ag is not None and not (ag[0] is True and ag[1] == ag[2] == rep["fin"][0]):
                        why = "None not stable on a further call: %s" % (ag,)
                if why:
                    add({"def": m["id"], "cfg": c, "kind": "seq_" + info["mode"], "mode": info["mode"], "input": info["data"], "splits": info.get("splits"),
                         "expected": info["exp"], "got": real, "fin": rep["fin"], "why": why, "src": m["src"]})
        if len(samples) < 6:
            line, info = batch[len(batch) // 3]
            samples.append({"def": meta_by_idx[info["d"]]["id"], "mode": info["mode"], "input_hex": info["data"], "splits": info.get("splits"), "expected": info["exp"]})
        counts["requests"] += len(batch)

    batch = []
    for tag, sub, run in tlc_records(res, only="RUN"):
        counts["runs"] += 1
        counts["explored"].add(run["d"])
        batch.extend(requests_of(run))
        if len(batch) >= 150000:
            flush(batch)
            batch = []
    flush(batch)
    from pipeline import drop_records
    drop_records(res)
    drop_records(gl)
    log("[lex:%s] TLC %d states, %d behaviours, %.1fs; %d replay requests x %d configurations" % (name, res["distinct"], counts["runs"], res["wall"], counts["requests"], len(cfgs)))
    extra = {}
    if has_twins:
        r2 = run_tlc("Modes.tla", "Modes.cfg", {"DEFS": lex_defs, "MAXLEN": str(maxlen)}, workers=tlc_workers, metaname="modes-" + name, xss="512m")
        extra["modes"] = {k: r2[k] for k in ("states", "distinct", "depth", "wall", "ok")}
        extra["modes_out"] = "" if r2["ok"] else r2["out"][-3000:]
        drop_records(r2)
        # real str output vs real byte-mode output of the twin, same bytes
        ncmp = 0
        for (dd, data), items in twin_items.items():
            td = tla_defs[dd - 1]
            if td["mode"] != "str":
                continue
            other = twin_items.get((td["twin"], data))
            if other is None:
                continue
            ncmp += 1
            oks = lambda its: [it for it in its if it[0] == "ok"]
            errb = lambda its: sorted({b for it in its if it[0] == "err" for b in range(it[2], it[3])})
            if oks(items) != oks(other) or errb(items) != errb(other):
                add({"def": meta_by_idx[dd]["id"], "cfg": cfgs[-1], "kind": "mode_diff", "mode": "full", "input": data,
                     "expected": items, "got": other, "why": "str mode and utf8=false disagree", "src": meta_by_idx[dd]["src"]})
        extra["mode_pairs_compared"] = ncmp
    out = {"name": name, "tier": tier, "seed": seed, "cfgs": cfgs, "maxlen": maxlen, "nchars": nchars, "extra": extra, "graphlex": graphlex,
           "tlc": {k: res[k] for k in ("states", "distinct", "depth", "wall")},
           "behaviours": counts["runs"], "requests": counts["requests"], "runs": counts["requests"] * len(cfgs),
           "defs": len(metas), "explored": len(counts["explored"]),
           "findings": findings, "n_findings": len(findings) + counts["more"], "samples": samples, "wall": time.time() - t0}
    with open(cache, "w") as f:
        json.dump(out, f)
    return out
