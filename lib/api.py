"""Engine C: LexerAPI.tla (API histories over lexer objects) replayed on the real API."""
import json
import os
import random
import time

import corpus
from lexrun import choose_chars
from pipeline import ToolError, build_subjects, capture, harness_hash, log, run_subject, run_tlc, sha, tlc_records, workdir


def pair_corpus():
    rx, tok, skip, mk = corpus.rx, corpus.tok, corpus.skip, corpus.mk
    P = []
    def pair(name, a_leaves, a_skips, b_leaves, b_skips, utf8=True):
        A = mk(name + "_A", a_leaves, a_skips, utf8=utf8, tags=["role:apiA"])
        B = mk(name + "_B", b_leaves, b_skips, utf8=utf8, tags=["role:apiB", "twin:" + name + "_A"])
        A["logos"] = ["extras = u32"]
        B["logos"] = ["extras = u32"]
        P.extend([A, B])
    pair("p1", [rx("[a-z]+", inc=1), rx("[0-9]+"), tok("é", inc=5), tok("=")], [skip(" ")],
         [rx("[a-z]", inc=10), rx("[a-z0-9 ][a-z0-9 =]", inc=100), tok("é=", inc=7)], [])
    pair("p2", [rx("a+b?", inc=1), tok("€", inc=2)], [skip("_+")],
         [rx("[ab_]{2}", inc=3), rx("€+", inc=4), tok("a", inc=50)], [skip("b")])
    pair("p3", [rx(b"[a-z]+", inc=1), rx(rb"[\x80-\xff]", inc=2)], [skip(b" ")],
         [rx(rb"(?s-u:.)", inc=1), rx(b"ab", inc=20)], [], utf8=False)
    # characters whose encodings contain the bytes 80 and BF (the first and the last continuation byte): U+00BF is
    # C2 BF, U+00FF is C3 BF, U+0080 is C2 80, U+FFFF is EF BF BF
    pair("p4", [rx("[a-z]+", inc=1), tok("\u00bf", inc=2), rx("\u00ff+", inc=3), tok("\u0080", inc=4)], [skip(" ")],
         [rx("[a-z\u00bf\u00ff\u0080\uffff]", inc=10), tok("\uffff\uffff", inc=7)], [])
    return P


def proj(ob):
    """observation of one slot as LexerAPI.Obs prints it: kind, spanned, start, end, extras, buffer"""
    return ob[:5] + [ob[7]]


def gen_script(rng, nops, has_chars):
    """a random call sequence that stays inside the operations LexerAPI.tla enables; tracks only what decides that
    (which slots are live, wrapped by spanned(), of which token type)"""
    live, sp, kind = [True, False], [False, False], ["A", "-"]
    ops = []
    while len(ops) < nops:
        i = rng.randrange(2)
        if not live[i]:
            i = 0 if live[0] else 1
        j = 1 - i
        x = rng.random()
        if x < 0.42:
            ops.append("n%d" % i)
        elif x < 0.62:
            ops.append("b%d:%s" % (i, rng.choice(["0", "1", "1", "2", "2", "MAX-0", "MAX-1"])))
        elif x < 0.70:
            ops.append("c%d:%d" % (i, j))
            live[j], sp[j], kind[j] = True, sp[i], kind[i]
        elif x < 0.78:
            if live[j] and kind[j] == kind[i] and sp[j] == sp[i]:
                ops.append("k%d:%d" % (i, j))
        elif x < 0.90:
            if not sp[i]:
                ops.append("m%d" % i)
                kind[i] = "B" if kind[i] == "A" else "A"
        elif x < 0.94:
            if not sp[i]:
                ops.append("s%d" % i)
                sp[i] = True
        elif has_chars:
            ops.append("f1")
            live[1], sp[1], kind[1] = True, False, "A"
    return ops


def api_trace(tier, seed, cfgs, bins, pairs, char_bytes, tla_defs, api_defs, metas_by_idx):
    """code -> specification: long seeded random call sequences run on the real lexers, every recorded call validated
    against LexerAPI.tla by ApiTrace.tla (TLC, one worker, acceptance by postcondition)"""
    rng = random.Random(seed + 77)
    nruns = 5 if tier == "quick" else 60
    runs = []
    for (pidx, ia, ib, is_str) in pairs:
        td = tla_defs[ia - 1]
        for partial in (False, True):
            for _ in range(nruns):
                chars = [rng.randrange(1, len(td["chars"]) + 1) for _ in range(rng.randint(3, 9))]
                ops = gen_script(rng, rng.randint(20, 36), True)
                cb = char_bytes[ia]
                data = b"".join(bytes(cb[c - 1]) for c in chars)
                data2 = b"".join(bytes(cb[c - 1]) for c in chars[1:] + chars[:1])
                runs.append({"pidx": pidx, "d": ia, "chars": chars, "partial": partial, "ops": ops,
                             "line": "S %d %s %s %s %s" % (pidx, "p" if partial else "f", data.hex(), ";".join(ops), data2.hex()), "hex": data.hex()})
    findings = []
    n_events = 0
    n_runs = 0
    from pipeline import run_subject as _rs
    for c in cfgs:
        reps = _rs(bins[c], [r["line"] for r in runs], timeout=1200)
        events, starts = [], []
        for r, rep in zip(runs, reps):
            pid = metas_by_idx[r["d"]]["id"]
            if "ops" not in rep or len(rep["ops"]) != len(r["ops"]):
                findings.append({"pair": pid, "cfg": c, "kind": "api", "input": r["hex"], "partial": r["partial"], "script": ";".join(r["ops"]), "why": "random call sequence: no result: %s" % (str(rep)[:200],), "expected": None, "got": None})
                continue
            starts.append((len(events), r))
            events.append({"e": "run", "d": r["d"], "chars": r["chars"], "partial": r["partial"]})
            for k, (op, o) in enumerate(zip(r["ops"], rep["ops"])):
                for ob in o["obs"]:
                    if ob[0] != "-" and not (ob[5] and ob[6]):
                        findings.append({"pair": pid, "cfg": c, "kind": "bump" if op.startswith("b") else "api", "input": r["hex"], "partial": r["partial"], "script": ";".join(r["ops"][: k + 1]),
                                         "why": "random call sequence: slice()/remainder() disagree with source[span()] : %s" % (ob,), "expected": None, "got": o})
                events.append({"e": "op", "op": op, "res": o["r"], "obs": [proj(ob) for ob in o["obs"]]})
        tp = os.path.join(os.path.dirname(api_defs), "apitrace-%s-%d.ndjson" % (c, os.getpid()))
        with open(tp, "w") as f:
            for e in events:
                f.write(json.dumps(e) + "\n")
        res = run_tlc("ApiTrace.tla", "ApiTrace.cfg", {"DEFS": api_defs, "MAXLEN": "9", "MAXOPS": "40", "FRESH": "1", "TRACE": tp}, workers=1, metaname="apitrace-" + c,
                      timeout=3000, xss="1g", deque=True)
        n_events += len(events)
        n_runs += len(starts)
        if res["ok"] and c == cfgs[0]:
            # the binding is not vacuous: the accepted trace with ONE span end of ONE recorded observation changed by one
            # must be rejected, at that event
            bad = [dict(e) for e in events]
            kbad = next((i for i, e in enumerate(bad) if i > len(bad) // 3 and e["e"] == "op" and e["obs"][0][0] != "-"), None)
            if kbad is not None:
                ob = [list(x) for x in bad[kbad]["obs"]]
                ob[0][3] += 1
                bad[kbad] = dict(bad[kbad], obs=ob)
                bp = tp + ".corrupt"
                with open(bp, "w") as f:
                    for e in bad:
                        f.write(json.dumps(e) + "\n")
                resb = run_tlc("ApiTrace.tla", "ApiTrace.cfg", {"DEFS": api_defs, "MAXLEN": "9", "MAXOPS": "40", "FRESH": "1", "TRACE": bp}, workers=1, metaname="apitrace-corrupt",
                               timeout=3000, xss="1g", deque=True)
                rejb = [r[2] for r in tlc_records(resb) if r[0] == "REJECTED"]
                if resb["ok"] or not rejb or rejb[0]["at"] != kbad:
                    raise ToolError("ApiTrace.tla accepted a corrupted trace, or rejected it elsewhere (event %d): the trace validation is vacuous" % kbad)
                os.remove(bp)
        if res["ok"]:
            continue
        rej = [r[2] for r in tlc_records(res) if r[0] == "REJECTED"]
        if not rej:
            if "SpanInv" in res["out"] and "violated" in res["out"]:
                findings.append({"pair": "?", "cfg": c, "kind": "bump", "input": "", "partial": False, "script": "", "why": "ApiTrace.tla: SpanInv violated along a recorded call sequence:\n" + res["out"][-1500:], "expected": None, "got": None})
                continue
            raise ToolError("ApiTrace.tla failed without a verdict (%s):\n%s" % (c, res["out"][-3000:]))
        at = rej[0]["at"]                      # events consumed; the next one is the one no operation explains
        st, r = max((s for s in starts if s[0] <= at), key=lambda s: s[0])
        k = at - st - 1                        # index of the rejected call within the run
        ev = rej[0]["event"]
        op = ev.get("op", "?")
        findings.append({"pair": metas_by_idx[r["d"]]["id"], "cfg": c, "kind": "bump" if op.startswith("b") else "api", "input": r["hex"], "partial": r["partial"],
                         "script": ";".join(r["ops"][: k + 1]), "why": "recorded call sequence rejected by LexerAPI.tla (ApiTrace) at call %d: %s returned %s, observation %s" % (k, op, ev.get("res"), ev.get("obs")),
                         "expected": None, "got": ev})
    return {"runs": n_runs, "events": n_events, "findings": findings}


def api_run(name, tier, seed, cfgs):
    t0 = time.time()
    defs = pair_corpus()
    defs_path, metas, capdir = capture(defs, name)
    tla_defs = [json.loads(l) for l in open(defs_path)]
    rng = random.Random(seed + 5)
    by_id = {m["id"]: m for m in metas}
    char_bytes = {}
    maxlen = 3
    maxops = 4 if tier == "quick" else 6
    nchars = 3 if tier == "quick" else 4
    for td, m in zip(tla_defs, metas):
        if not m["accepted"]:
            raise ToolError("API pair definition rejected: %s %s" % (m["id"], m["errors"]))
        td["twin"] = 0
    pairs = []
    for td, m in zip(tla_defs, metas):
        if td["role"] != "apiA":
            td.setdefault("chars", [])
            continue
        cs = choose_chars(td, m, nchars, rng)
        td["chars"] = [c[0] for c in cs]
        char_bytes[td["idx"]] = [c[1] for c in cs]
        other = by_id[m["id"][:-2] + "_B"]
        otd = tla_defs[other["idx"] - 1]
        b2b = {}
        for bi, ranges in enumerate(other["blocks"]):
            for lo, hi in ranges:
                for b in range(lo, hi + 1):
                    b2b[b] = bi + 1
        otd["chars"] = [[b2b[x] for x in c[1]] for c in cs]
        td["twin"] = otd["idx"]
        otd["twin"] = td["idx"]
        pairs.append((len(pairs) + 1, td["idx"], otd["idx"], m["utf8"]))
    blob = "\n".join(json.dumps(td) for td in tla_defs) + "\n"
    key = sha(blob, harness_hash(), tier, str(seed), ",".join(cfgs), open(__file__).read())[:16]
    cache = os.path.join(workdir(), "api-%s-%s.json" % (name, key))
    if os.path.exists(cache):
        return json.load(open(cache))
    api_defs = os.path.join(capdir, "defs_api_%s.ndjson" % key)
    with open(api_defs, "w") as f:
        f.write(blob)
    # two explorations: the histories over one source buffer up to maxops operations, and - one operation shorter (two in the
    # thorough tier, where the second exploration would otherwise be as large as the first) - the
    # histories in which a lexer over a SECOND buffer takes part (f = fresh lexer over buffer 2, k = clone_from)
    res = run_tlc("LexerAPI.tla", "LexerAPI.cfg", {"DEFS": api_defs, "MAXLEN": str(maxlen), "MAXOPS": str(maxops), "FRESH": "0"}, workers=8,
                  metaname="api", timeout=6000, xss="512m")
    if not res["ok"]:
        raise ToolError("LexerAPI.tla: SpanInv violated at specification level:\n" + res["out"][-3000:])
    recs = [r[2] for r in tlc_records(res) if r[0] == "API"]
    log("[api] TLC %d states, %d distinct, %d states with operations, %.1fs" % (res["states"], res["distinct"], len(recs), res["wall"]))
    res2 = run_tlc("LexerAPI.tla", "LexerAPI.cfg", {"DEFS": api_defs, "MAXLEN": str(maxlen), "MAXOPS": str(maxops - 1 if tier == "quick" else maxops - 2), "FRESH": "1"}, workers=8,
                   metaname="api2", timeout=6000, xss="512m")
    if not res2["ok"]:
        raise ToolError("LexerAPI.tla (second buffer): SpanInv violated at specification level:\n" + res2["out"][-3000:])
    n2 = 0
    for r in tlc_records(res2):
        if r[0] != "API":
            continue
        rec = r[2]
        if not any(h.startswith("f") for h in rec["hist"]):
            rec["ops"] = [o for o in rec["ops"] if o[0].startswith("f")]      # the rest is part of the first exploration
        if rec["ops"]:
            recs.append(rec)
            n2 += 1
    if n2 == 0:
        raise ToolError("LexerAPI.tla: no history with a second buffer was enumerated")
    log("[api] second buffer: TLC %d states, %d distinct, %d states kept, %.1fs" % (res2["states"], res2["distinct"], n2, res2["wall"]))
    # third exploration: random simulation of LONGER histories over LONGER inputs (TLC -simulate, seeded): every state on the
    # way is printed with its history and all its enabled operations, like the exhaustively enumerated ones
    ntr = 30 if tier == "quick" else 400
    res3 = run_tlc("LexerAPI.tla", "LexerAPI.cfg", {"DEFS": api_defs, "MAXLEN": "6", "MAXOPS": "12", "FRESH": "1"}, workers=1,
                   metaname="api3", timeout=3000, xss="512m", extra=["-simulate", "num=%d" % ntr, "-depth", "40", "-seed", str(seed + 1)])
    if not res3["ok"]:
        raise ToolError("LexerAPI.tla (simulation): SpanInv violated at specification level:\n" + res3["out"][-3000:])
    seen3 = set()
    n3 = 0
    for r in tlc_records(res3):
        if r[0] != "API":
            continue
        rec = r[2]
        k3 = (rec["d"], tuple(rec["chars"]), rec["partial"], tuple(rec["hist"]))
        if len(rec["hist"]) < maxops or k3 in seen3:
            continue            # short histories are part of the exhaustive explorations
        seen3.add(k3)
        recs.append(rec)
        n3 += 1
    if n3 == 0:
        raise ToolError("LexerAPI.tla: the simulation produced no history beyond the exhaustive bound")
    log("[api] simulation: %d traces, %d states generated, %d deep states kept (inputs up to 6 characters, up to 12 operations), %.1fs" % (ntr, res3["states"], n3, res3["wall"]))
    res = dict(res, states=res["states"] + res2["states"], distinct=res["distinct"] + res2["distinct"], wall=res["wall"] + res2["wall"])
    bins = build_subjects(metas, cfgs, name, pairs=pairs)
    pidx_of = {ia: p for (p, ia, ib, s) in pairs}
    requests = []
    for rec in recs:
        cb = char_bytes[rec["d"]]
        data = []
        for c in rec["chars"]:
            data.extend(cb[c - 1])
        hexd = bytes(data).hex()
        data2 = []
        for c in rec["chars"][1:] + rec["chars"][:1]:      # buffer 2 of LexerAPI.tla: the same characters rotated by one
            data2.extend(cb[c - 1])
        hexd2 = bytes(data2).hex()
        ops = sorted(rec["ops"], key=lambda o: o[0])
        script = ";".join(rec["hist"] + ["P" + "|".join(o[0] for o in ops)])
        requests.append(("S %d %s %s %s %s" % (pidx_of[rec["d"]], "p" if rec["partial"] else "f", hexd, script, hexd2),
                         {"d": rec["d"], "data": hexd, "partial": rec["partial"], "hist": rec["hist"], "ops": ops, "obs0": rec["obs"]}))
    n_hist = sum(len(i["ops"]) for (l, i) in requests)
    log("[api] %d states, %d histories (state x operation) x %d configurations" % (len(requests), n_hist, len(cfgs)))
    findings = []
    lines = [r[0] for r in requests]
    meta_by_idx = {m["idx"]: m for m in metas}
    for c in cfgs:
        reps = run_subject(bins[c], lines, timeout=2400)
        for (line, info), rep in zip(requests, reps):
            m = meta_by_idx[info["d"]]
            nh = len(info["hist"])
            def add(kind, script, why, exp, got):
                findings.append({"pair": m["id"], "cfg": c, "kind": kind, "input": info["data"], "partial": info["partial"], "script": script, "why": why, "expected": exp, "got": got})
            if "ops" not in rep or len(rep["ops"]) != nh + len(info["ops"]):
                add("api", ";".join(info["hist"]), "no result: %s" % (str(rep)[:300],), None, None)
                continue
            # the history itself (its steps were checked as operations of earlier states); accessors must hold at every step
            for k, o in enumerate(rep["ops"][:nh]):
                for ob in o["obs"]:
                    if ob[0] != "-" and not (ob[5] and ob[6]):
                        add("bump" if info["hist"][k].startswith("b") else "api", ";".join(info["hist"][: k + 1]),
                            "slice()/remainder() disagree with source[span()] : %s" % (ob,), None, o)
            if nh and [list(x) for x in info["obs0"]] != [proj(ob) for ob in rep["ops"][nh - 1]["obs"]]:
                continue    # the history already diverged: reported at the state where it first did
            for (op, res_exp, obs_exp), o in zip(info["ops"], rep["ops"][nh:]):
                script = ";".join(info["hist"] + [op])
                kind = "bump" if op.startswith("b") else "api"
                why = None
                for ob in o["obs"]:
                    if ob[0] != "-" and not (ob[5] and ob[6]):
                        why = "slice()/remainder() disagree with source[span()] : %s" % (ob,)
                r = o["r"]
                if why is None and r[0] != res_exp[0]:
                    why = "result: expected %s got %s" % (res_exp, r)
                if why is None and op.startswith("n") and list(r) != list(res_exp):
                    why = "item: expected %s got %s" % (res_exp, r)
                got_obs = [proj(ob) for ob in o["obs"]]
                if why is None and [list(x) for x in obs_exp] != got_obs:
                    why = "observation: expected %s got %s" % (obs_exp, got_obs)
                if why:
                    add(kind, script, why, {"res": res_exp, "obs": obs_exp}, o)
    tr = api_trace(tier, seed, cfgs, bins, pairs, char_bytes, tla_defs, api_defs, meta_by_idx)
    findings += tr["findings"]
    log("[api] trace validation: %d recorded call sequences, %d events validated by ApiTrace.tla over %d configurations, %d findings" % (tr["runs"], tr["events"], len(cfgs), len(tr["findings"])))
    requests_flat = [(l, dict(i, script=";".join(i["hist"]), res=i["ops"][0][1] if i["ops"] else None, obs=i["ops"][0][2] if i["ops"] else None)) for (l, i) in requests]
    samples = [{"pair": meta_by_idx[i["d"]]["id"], "input_hex": i["data"], "partial": i["partial"], "history": i["hist"], "operations_with_expected_result_and_observation": i["ops"][:4]}
               for (l, i) in requests[:: max(1, len(requests) // 5)][:5]]
    out = {"tlc": {k: res[k] for k in ("states", "distinct", "depth", "wall")}, "histories": n_hist, "runs": n_hist * len(cfgs),
           "states_with_ops": len(recs), "cfgs": cfgs, "maxlen": maxlen, "maxops": maxops, "simulated_deep_states": n3, "simulated_traces": ntr, "trace_runs": tr["runs"], "trace_events": tr["events"], "findings": findings[:3000], "n_findings": len(findings),
           "samples": samples, "wall": time.time() - t0, "pairs": [p[0] for p in pairs]}
    with open(cache, "w") as f:
        json.dump(out, f)
    return out
