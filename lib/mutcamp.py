#!/usr/bin/env python3
"""Mutation campaign: small automatic source mutants of /repo, kept when they compile and the
repository's own suite still passes, then run through the quick checks that concern the mutated file.
A surviving mutant that no check reports is either equivalent (no behaviour any property talks about
changes) or a gap in the machinery; the list is written to work/mutcamp/report.json for review.

Nothing here is a registered check.  Scratch worktrees live under /tmp/mc-<k> and are removed at the end.

usage: mutcamp.py gen  <seed> <n>          -> work/mutcamp/candidates.json
       mutcamp.py run  [workers]           -> filters candidates (suite), runs checks on survivors
       mutcamp.py one  <id>                -> re-run the checks for one survivor (debug)
"""
import json
import os
import random
import re
import shutil
import subprocess
import sys
import time
from concurrent.futures import ThreadPoolExecutor

VERIF = os.path.dirname(os.path.dirname(os.path.abspath(__file__)))
REPO = "/repo"
OUT = os.path.join(VERIF, "work", "mutcamp")

FILES = {
    "src/lexer.rs": ["C14", "C15", "C13", "C02", "C04", "C07"],
    "src/source.rs": ["C05", "C04", "C02", "C12", "C15"],
    "src/internal.rs": ["C13"],
    "logos-codegen/src/graph/mod.rs": ["C01", "C02", "C03", "C07", "C08", "C16", "C19"],
    "logos-codegen/src/graph/dfa_util.rs": ["C01", "C08", "C16"],
    "logos-codegen/src/generator/mod.rs": ["C01", "C02", "C06", "C07", "C20", "C13", "C03"],
    "logos-codegen/src/generator/fork.rs": ["C01", "C02", "C06", "C07", "C20", "C05"],
    "logos-codegen/src/generator/fast_loop.rs": ["C01", "C06", "C20", "C05"],
    "logos-codegen/src/generator/leaf.rs": ["C01", "C13", "C06", "C03"],
    "logos-codegen/src/parser/mod.rs": ["C18", "C19", "C13", "C11"],
    "logos-codegen/src/parser/nested.rs": ["C18", "C19"],
    "logos-codegen/src/parser/definition.rs": ["C18", "C19", "C10"],
    "logos-codegen/src/parser/subpattern.rs": ["C11", "C19", "C12"],
    "logos-codegen/src/parser/type_params.rs": ["C18", "C19"],
    "logos-codegen/src/pattern.rs": ["C09", "C19", "C10", "C08"],
    "logos-codegen/src/leaf.rs": ["C09", "C01"],
    "logos-codegen/src/lib.rs": ["C19", "C17", "C10", "C09", "C04", "C18", "C13"],
    "logos-cli/src/main.rs": ["C17"],
}

OPS = [
    (r" <= ", " < "), (r" < ", " <= "), (r" >= ", " > "), (r" > ", " >= "),
    (r" == ", " != "), (r" != ", " == "),
    (r" && ", " || "), (r" \|\| ", " && "),
    (r" \+ 1\b", " + 0"), (r" \+ 1\b", " + 2"), (r" - 1\b", " - 0"), (r" \+ ", " - "),
    (r"\.all\(", ".any("), (r"\.any\(", ".all("),
    (r"\.is_some\(\)", ".is_none()"), (r"\.is_none\(\)", ".is_some()"),
    (r"\.is_empty\(\)", ".is_empty() == false"),
    (r"\btrue\b", "false"), (r"\bfalse\b", "true"),
    (r"\bif !", "if "), (r"\.max_by_key\(", ".min_by_key("), (r"\.min\(", ".max("), (r"\.max\(", ".min("),
    (r"\b0\b", "1"), (r"\b1\b", "0"), (r"\b8\b", "4"), (r"\b2\b", "3"),
    (r"\.saturating_add\(", ".wrapping_add("), (r"\.saturating_mul\(", ".wrapping_mul("),
    (r"\.checked_add\(", ".wrapping_add("),  # usually does not compile; filtered by the build
    (r"\.filter\(", ".filter(|_| true).filter("),
    (r"\bSome\(0\)", "Some(1)"),
    (r"\.rev\(\)", ""),
    (r"\.sort_unstable\(\);", ";"), (r"\.sort\(\);", ";"), (r"\.dedup\(\);", ";"),
]
DELETE = re.compile(r"^\s*(lex\.|self\.|graph\.|state_data\.|[a-z_]+\.(push|insert|clear|retain|extend|sort|append_all)\b).*;\s*$")


def sh(cmd, cwd=None, timeout=3600, env=None):
    """runs in a process group of its own; on timeout the whole group is killed (a mutant can make a test of the
    suite loop forever: the test binary must not outlive the run)"""
    import signal
    p = subprocess.Popen(cmd, shell=True, cwd=cwd, stdout=subprocess.PIPE, stderr=subprocess.STDOUT, text=True, env=env, start_new_session=True)
    try:
        out, _ = p.communicate(timeout=timeout)
        return p.returncode, out
    except subprocess.TimeoutExpired:
        try:
            os.killpg(p.pid, signal.SIGKILL)
        except ProcessLookupError:
            pass
        out, _ = p.communicate()
        return 124, (out or "") + "\nTIMEOUT: test result: FAILED (did not finish)"


def code_lines(path):
    """(line number, text) of lines that are code: not comments, not tests, not verif hooks, not messages"""
    lines = open(os.path.join(REPO, path)).read().split("\n")
    out = []
    in_tests = False
    skip_next = False
    for i, l in enumerate(lines):
        s = l.strip()
        if s.startswith("#[cfg(test)]") or s.startswith("mod tests"):
            in_tests = True
        if in_tests:
            continue
        if "logos_verif" in l:
            skip_next = True
            continue
        if skip_next:
            skip_next = False
            continue
        if not s or s.startswith("//") or s.startswith("#[") or s.startswith("use ") or "verif" in l:
            continue
        if re.search(r'(format!|panic!|assert!|debug_assert|expect\(|\.err\(|error\(|Error::|"[^"]{12,}")', l):
            continue
        out.append((i, l))
    return out


def gen(seed, n):
    rng = random.Random(seed)
    cands = []
    for path in FILES:
        for (i, l) in code_lines(path):
            for (pat, rep) in OPS:
                for m in re.finditer(pat, l):
                    new = l[:m.start()] + re.sub(pat, rep, l[m.start():m.end()]) + l[m.end():]
                    if new != l:
                        cands.append({"file": path, "line": i + 1, "old": l, "new": new, "op": "%s -> %s" % (pat, rep)})
            if DELETE.match(l):
                cands.append({"file": path, "line": i + 1, "old": l, "new": "", "op": "delete statement"})
    rng.shuffle(cands)
    # spread over files: round-robin by file
    byfile = {}
    for c in cands:
        byfile.setdefault(c["file"], []).append(c)
    pick = []
    while len(pick) < n and any(byfile.values()):
        for f in list(byfile):
            if byfile[f] and len(pick) < n:
                pick.append(byfile[f].pop())
    for k, c in enumerate(pick):
        c["id"] = "m%d_%03d" % (seed, k)
    os.makedirs(OUT, exist_ok=True)
    with open(os.path.join(OUT, "candidates.json"), "w") as f:
        json.dump(pick, f, indent=1)
    print("candidates: %d of %d possible" % (len(pick), len(cands)))


def apply(wt, c):
    p = os.path.join(wt, c["file"])
    lines = open(p).read().split("\n")
    assert lines[c["line"] - 1] == c["old"], (c, lines[c["line"] - 1])
    lines[c["line"] - 1] = c["new"]
    with open(p, "w") as f:
        f.write("\n".join(lines))


def worker(k, queue, results):
    wt = "/tmp/mc-%d" % k
    sh("git -C %s worktree remove --force %s" % (REPO, wt))
    rc, out = sh("git -C %s worktree add -q %s HEAD" % (REPO, wt))
    if rc != 0:
        print("worktree failed", out)
        return
    env = dict(os.environ, CARGO_NET_OFFLINE="true", CARGO_TARGET_DIR=wt + "/target", CARGO_TERM_COLOR="never")
    try:
        while True:
            try:
                c = queue.pop()
            except IndexError:
                break
            t0 = time.time()
            sh("git checkout -q -- .", cwd=wt)
            apply(wt, c)
            rc, out = sh("cargo test --workspace --offline --no-fail-fast 2>&1 | tail -400", cwd=wt, env=env, timeout=900)
            built = "error: could not compile" not in out and "error[" not in out
            ok = built and "FAILED" not in out and "test result: ok" in out and not re.search(r"test result: FAILED|[1-9]\d* failed", out)
            r = dict(c, compiled=built, suite_pass=ok, suite_s=round(time.time() - t0, 1))
            if ok:
                rc, diff = sh("git diff", cwd=wt)
                r["diff"] = diff
                r["checks"] = {}
                edir = os.path.join(OUT, "ev-%d" % k)
                for prop in FILES[c["file"]]:
                    t1 = time.time()
                    e2 = dict(os.environ, VERIF_REPO=wt, VERIF_EVIDENCE_DIR=edir)
                    rc, o = sh("./check %s --tier quick" % prop, cwd=VERIF, env=e2, timeout=3600)
                    first = [l for l in o.splitlines() if l.startswith("  key=")][:2]
                    r["checks"][prop] = {"exit": rc, "first": [x[:300] for x in first], "wall_s": round(time.time() - t1, 1),
                                         "tail": "" if rc in (0, 1) else o[-800:]}
                    if rc == 1:
                        break           # caught: no need to run the others
                r["caught_by"] = [p for p, x in r["checks"].items() if x["exit"] == 1]
                r["tool_errors"] = [p for p, x in r["checks"].items() if x["exit"] not in (0, 1)]
                # clean this tree's caches (they are per tree hash and never reused)
                rc, h = sh("python3 -c 'import sys; sys.path.insert(0, \"lib\"); import pipeline; print(pipeline.repo_hash())'", cwd=VERIF, env=dict(os.environ, VERIF_REPO=wt))
                h = h.strip().split("\n")[-1]
                if re.fullmatch(r"[0-9a-f]{20}", h):
                    shutil.rmtree(os.path.join(VERIF, "work", "tree-" + h), ignore_errors=True)
            r["_k"] = k
            results.append(r)
            with open(os.path.join(OUT, "results-%d.json" % k), "w") as f:
                json.dump([x for x in list(results) if x.get("_k") == k], f, indent=1)
            print("[%d] %s %s:%d %s | compiled=%s suite_pass=%s caught=%s (%.0fs)" % (
                k, c["id"], c["file"], c["line"], c["op"], built, ok, r.get("caught_by"), time.time() - t0), flush=True)
    finally:
        sh("git -C %s worktree remove --force %s" % (REPO, wt))


def run(nworkers):
    cands = json.load(open(os.path.join(OUT, "candidates.json")))
    done = set()
    rp = os.path.join(OUT, "report.json")
    old = json.load(open(rp)) if os.path.exists(rp) else []
    old = [r for r in old if not r.get("tool_errors")]          # inconclusive runs are repeated
    done = {r["id"] for r in old}
    queue = [c for c in cands if c["id"] not in done][::-1]
    results = []
    with ThreadPoolExecutor(nworkers) as ex:
        futs = [ex.submit(worker, k, queue, results) for k in range(nworkers)]
        for f in futs:
            f.result()
    sh("rm -rf %s/work/target*-alt* %s/work/harness-alt*" % (VERIF, VERIF))
    allr = old + results
    with open(rp, "w") as f:
        json.dump(allr, f, indent=1)
    surv = [r for r in allr if r["suite_pass"]]
    missed = [r for r in surv if not r.get("caught_by") and not r.get("tool_errors")]
    print("candidates %d, compiled %d, suite-surviving %d, caught %d, not reported %d" % (
        len(allr), sum(r["compiled"] for r in allr), len(surv), len(surv) - len(missed), len(missed)))
    for r in missed:
        print("NOT REPORTED", r["id"], r["file"], r["line"], r["op"], "|", r["old"].strip(), "=>", r["new"].strip())


if __name__ == "__main__":
    if sys.argv[1] == "gen":
        gen(int(sys.argv[2]), int(sys.argv[3]))
    elif sys.argv[1] == "run":
        run(int(sys.argv[2]) if len(sys.argv) > 2 else 3)
