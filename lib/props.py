"""One check per property.  Each gathers findings from the shared engines (cached per tree hash),
keeps those that the property states, writes evidence and prints the verdict."""
import json
import os
import time

import corpus
from pipeline import ToolError, capture, finish, log, run_tlc, tlc_records

ALL_CFGS = ["tc", "tc_safe", "sm", "sm_safe"]


def base_corpus(tier, seed):
    defs = corpus.shape_corpus()
    defs += corpus.random_corpus(seed, 40 if tier == "quick" else 800)
    try:
        import extract
        defs += extract.repo_defs()
    except ImportError:
        pass
    return defs


def engine_a(tier, seed, name="base", defs=None):
    from attempt import attempt_run
    if defs is None:
        defs = base_corpus(tier, seed)
    return attempt_run(name, defs, tier, seed, ALL_CFGS)


def fkey(f):
    return "%s:%s:%s" % (f["def"], f["kind"], f["input"])


def as_violation(f):
    return {"key": fkey(f), "what": "%s on %s input=%s expected=%s got=%s (cfg %s)" % (
        f["kind"], f["def"], f["input"], json.dumps(f["expected"]), json.dumps(f["got"]), f["cfg"]),
        "definition": f.get("src"), "input_hex": f["input"], "expected": f["expected"], "got": f["got"],
        "cfg": f["cfg"], "mode": f["what"], "path": f.get("path")}


def a_coverage(r, extra=None):
    cov = {
        "states": r["tlc"]["distinct"], "transitions": r["tlc"]["states"],
        "traces_validated_against_impl": r["runs"],
        "samples": r["samples"],
        "definitions": r["defs"], "definitions_accepted_and_explored": r["explored"],
        "replay_requests": r["requests"], "configurations": r["cfgs"],
        "tlc_depth": r["tlc"]["depth"], "model_level_violations_logged": r["n_viol"],
        "rule": "Attempt.tla: every reachable product state (captured graph x reference automata x UTF-8) of every accepted "
                "corpus definition; one replay per product state x terminal block x {full, eoi, prefix}, run on the compiled lexers",
    }
    if extra:
        cov.update(extra)
    return cov


def expected_kind(f):
    return f["expected"].get("kind") if isinstance(f["expected"], dict) else None


def got_kind(f):
    return f["got"].get("kind") if isinstance(f["got"], dict) else None


def is_munch(f):
    """the wrong token, the wrong end, or a match missed / invented (C01)"""
    if f["kind"] not in ("munch", "err_span", "eoi", "crash"):
        return False
    return expected_kind(f) in ("tok", "skip") or got_kind(f) in ("tok", "skip")


def is_errspan(f):
    if f["kind"] not in ("munch", "err_span", "eoi", "crash"):
        return False
    return expected_kind(f) == "err" or got_kind(f) == "err"


ASSUME_A = [
    "regex-automata/regex-syntax give the meaning of a single pattern (reference automata are single-pattern anchored all-matches DFAs built from the pattern as written; literals are hand-built chains)",
    "priorities are the captured ones (their correctness is C09)",
    "definitions are those of the corpus (shape corpus + seeded random + definitions extracted from the repository tests)",
    "within a byte block, the bytes not instantiated by the replay behave like the instantiated ones in the compiled code",
]


def check_C01(tier, seed, rest):
    t0 = time.time()
    r = engine_a(tier, seed)
    v = [as_violation(f) for f in r["findings"] if is_munch(f)]
    finish("C01", tier, seed, "model_checking", a_coverage(r), v, t0, ASSUME_A)


def check_C02(tier, seed, rest):
    t0 = time.time()
    r = engine_a(tier, seed)
    v = [as_violation(f) for f in r["findings"] if is_errspan(f)]
    finish("C02", tier, seed, "model_checking", a_coverage(r), v, t0, ASSUME_A)


def check_C07(tier, seed, rest):
    t0 = time.time()
    r = engine_a(tier, seed)
    v = [as_violation(f) for f in r["findings"] if f["kind"].startswith("partial")]
    finish("C07", tier, seed, "model_checking", a_coverage(r), v, t0, ASSUME_A)


def literal_corpus(tier, seed):
    import random
    rng = random.Random(seed + 101)
    defs = [d for d in corpus.shape_corpus() if d["id"].startswith(("meta", "icase", "kw_", "ops", "two_tok", "emoji", "bytes_raw", "single"))]
    alphabet = list(".+*?()[]{}|^$\\-&") + ["a", "B", "k", "K", "é", "É", "ß", "ſ", "σ", "ς", "Σ", "€", "😀", " ", "\n", "\t", "\"", "'", "#", "(?", "?&", "x"]
    n = 30 if tier == "quick" else 400
    for k in range(n):
        lits = []
        for _ in range(rng.randint(1, 3)):
            w = "".join(rng.choice(alphabet) for _ in range(rng.randint(1, 4)))
            lits.append(w)
        leaves = []
        seenw = set()
        for w in lits:
            if w in seenw:
                continue
            seenw.add(w)
            kw = {}
            if rng.random() < 0.4:
                kw["icase"] = True
            leaves.append(corpus.tok(w, prio=rng.randint(1, 20), **kw))
        leaves.append(corpus.rx("[a-z]+", prio=1))
        skips = []
        if rng.random() < 0.3:
            skips.append(corpus.skip(rng.choice(["rem", "Ab", "é"]), icase=True, prio=30))
        defs.append(corpus.mk("lit%d_%d" % (seed, k), leaves, skips, tags=["literal"]))
    for k in range(n // 2):
        lits = []
        for _ in range(rng.randint(1, 3)):
            lits.append(bytes(rng.choice([0, 0x41, 0x61, 0x6b, 0x7f, 0x80, 0xc3, 0x89, 0xa9, 0xff, 0x2e, 0x5c, 0x28]) for _ in range(rng.randint(1, 3))))
        leaves = []
        seenw = set()
        for w in lits:
            if w in seenw:
                continue
            seenw.add(w)
            kw = {}
            if rng.random() < 0.4:
                kw["icase"] = True
            leaves.append(corpus.tok(w, prio=rng.randint(1, 20), **kw))
        leaves.append(corpus.rx(b"[a-z]+", prio=1))
        defs.append(corpus.mk("blit%d_%d" % (seed, k), leaves, utf8=False, tags=["literal"]))
    # regex / skip with ignore(case)
    for k, p in enumerate(["ab+c", "[a-f]x", "straße", "ǆ+", "k|σ", "\\x41b"]):
        defs.append(corpus.mk("icrx%d" % k, [corpus.rx(p, icase=True, prio=5), corpus.rx("[a-zA-Z]+", prio=1)], tags=["literal"]))
        defs.append(corpus.mk("icsk%d" % k, [corpus.rx("[0-9]+", prio=1)], [corpus.skip(p, icase=True, prio=5)], tags=["literal"]))
    return defs


def check_C10(tier, seed, rest):
    t0 = time.time()
    r = engine_a(tier, seed, "lit", literal_corpus(tier, seed))
    v = [as_violation(f) for f in r["findings"] if f["kind"] in ("munch", "err_span", "eoi", "crash", "partial_wrong")]
    finish("C10", tier, seed, "model_checking", a_coverage(r, {"rule": "literal corpus: #[token] literals over regex metacharacters, cased non-ASCII, arbitrary bytes, with and without ignore(case), in token/regex/skip position; reference = hand-built byte chain, or per-character simple case folding; then Attempt.tla + replay"}), v, t0, ASSUME_A)


def sub_corpus(tier, seed):
    import random
    rng = random.Random(seed + 202)
    defs = [d for d in corpus.shape_corpus() if d["id"].startswith("sub_")]
    bodies = ["a|b", "[0-9]+", "x?y", "(?i)k", "a|", "é|e", "(?-u:z)", "[^a]", "ab|a", "(a|b)*c", "q+?"]
    n = 25 if tier == "quick" else 300
    for k in range(n):
        subs = [("s0", rng.choice(bodies))]
        if rng.random() < 0.6:
            subs.append(("s1", rng.choice(["(?&s0)+", "(?&s0)x|y", "w(?&s0)", "(?&s0)(?&s0)"])))
        names = [s[0] for s in subs]
        leaves = []
        for _ in range(rng.randint(1, 3)):
            n1 = rng.choice(names)
            shape = rng.choice(["(?&%s)c", "c(?&%s)", "c(?&%s)d", "(?&%s)", "(?&%s)|zz", "(?&%s)+;", "x(?&%s)?y"]) % n1
            kw = {"prio": rng.randint(1, 20), "greedy": True}
            leaves.append(corpus.rx(shape, **kw))
        defs.append(corpus.mk("subr%d_%d" % (seed, k), leaves, subs=subs, tags=["sub"]))
    return defs


def check_C11(tier, seed, rest):
    t0 = time.time()
    r = engine_a(tier, seed, "sub", sub_corpus(tier, seed))
    v = [as_violation(f) for f in r["findings"] if f["kind"] in ("munch", "err_span", "eoi", "crash", "partial_wrong")]
    # undefined references must be rejected: verdict comes from the capture metadata
    finish("C11", tier, seed, "model_checking", a_coverage(r, {"rule": "subpattern corpus: references at start/middle/end, alternations and inline flags inside subpatterns, nested references, byte-string subpatterns; reference = own inlining into non-capturing groups with the subpattern's own Unicode flag; then Attempt.tla + replay"}), v, t0, ASSUME_A)


def check_C08(tier, seed, rest):
    t0 = time.time()
    import random
    rng = random.Random(seed + 303)
    defs = base_corpus(tier, seed)
    # overlap-biased definitions: pairs/triples of classes, repetitions, literals, look-around, icase
    pool = ["a", "ab", "[ab]", "[a-c]+", "[b-d]+", "a+", "a|b", "ab?", "a$", "a(?-u:\\b)", "(a|ab)", "[a-c]{2}", "ab*", "é", "[éa]"]
    n = 60 if tier == "quick" else 1200
    for k in range(n):
        leaves = []
        for _ in range(rng.randint(2, 4)):
            p = rng.choice(pool)
            kw = {}
            r = rng.random()
            if r < 0.35:
                kw["prio"] = rng.randint(1, 4)
            if rng.random() < 0.1:
                kw["icase"] = True
            if rng.random() < 0.3 and p.isalnum():
                leaves.append(corpus.tok(p, **kw))
            else:
                leaves.append(corpus.rx(p, **kw))
        defs.append(corpus.mk("ovl%d_%d" % (seed, k), leaves, tags=["overlap"]))
    defs_path, metas, capdir = capture(defs, "amb")
    res = run_tlc("Amb.tla", "Amb.cfg", {"DEFS": defs_path}, workers=8, metaname="amb")
    recs = tlc_records(res["out"])
    ties = {}
    wit = {}
    for tag, sub, rec in recs:
        if tag == "TIE":
            for t in rec["ties"]:
                ties.setdefault(rec["d"], set()).add(tuple(sorted(t)))
                wit.setdefault((rec["d"], tuple(sorted(t))), rec["path"])
    tla_defs = [json.loads(l) for l in open(defs_path)]
    viol = []
    n_checked = 0
    n_tied = 0
    samples = []
    for td, m in zip(tla_defs, metas):
        if not td["refsOk"] or td["nL"] == 0 or any(rf["nullable"] for rf in td["ref"]):
            continue
        if "nostart" in m["gerrors"] or "empty" in m["gerrors"] or not m["captured_leaves"]:
            continue
        n_checked += 1
        spec_ties = ties.get(td["idx"], set())
        code_ties = set(tuple(sorted(t)) for t in td["ties"])
        if spec_ties:
            n_tied += 1
        if len(samples) < 6 and (spec_ties or len(samples) < 3):
            samples.append({"def": m["id"], "src": m["src"], "spec_ties": sorted(spec_ties), "reported": sorted(code_ties), "accepted": m["accepted"]})
        if spec_ties != code_ties:
            viol.append({"key": "%s:ties" % m["id"], "what": "tie sets differ on %s: specification %s, derive reported %s" % (m["id"], sorted(spec_ties), sorted(code_ties)),
                         "definition": m["src"], "witness_paths": {str(k[1]): v for k, v in wit.items() if k[0] == td["idx"]}, "blocks": m["blocks"]})
            continue
        if spec_ties and m["accepted"]:
            viol.append({"key": "%s:accepted" % m["id"], "what": "ambiguous definition accepted", "definition": m["src"]})
        # naming: every member of every tie set has a message that names all the others
        for t in spec_ties:
            for i in t:
                pat_i = m["captured_leaves"][i - 1]["pattern"]
                others = [m["captured_leaves"][j - 1]["pattern"] for j in t if j != i]
                ok = any(e.startswith("The pattern " + pat_i) and all(o in e.split("following variants:")[-1] for o in others) for e in m["errors"])
                if not ok:
                    viol.append({"key": "%s:naming:%s" % (m["id"], i), "what": "no diagnostic naming the conflict of leaf %d with %s" % (i, others), "definition": m["src"], "errors": m["errors"]})
        if not spec_ties and any("can match simultaneously" in e for e in m["errors"]):
            viol.append({"key": "%s:spurious" % m["id"], "what": "ambiguity diagnostic without a tie", "definition": m["src"], "errors": m["errors"]})
    cov = {"states": res["distinct"], "transitions": res["states"], "traces_validated_against_impl": n_checked,
           "samples": samples, "definitions": len(metas), "definitions_compared": n_checked, "definitions_with_ties": n_tied,
           "rule": "Amb.tla: reachable product of the per-pattern reference automata of every corpus definition (accepted or rejected); "
                   "family of top-priority tie sets compared with the Disambiguation errors captured from the real derive; diagnostic text checked for naming each member"}
    finish("C08", tier, seed, "model_checking", cov, viol, t0, ASSUME_A[:3])
