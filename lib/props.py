"""One check per property.  Each gathers findings from the shared engines (cached per tree hash),
keeps those that the property states, writes evidence and prints the verdict."""
import json
import os
import time

import corpus
from pipeline import ToolError, capture, finish, log, run_tlc, tlc_records

ALL_CFGS = ["tc", "tc_safe", "sm", "sm_safe"]


def base_corpus(tier, seed):
    defs = corpus.shape_corpus()
    if tier == "quick":      # byte-table boundary shapes: the quick tier keeps the boundaries 00, 7F, 80 and FF
        defs = [d for d in defs if not d["id"].startswith("btab_") or d["id"][-2:] in ("00", "7f", "80", "ff")]
    defs += corpus.random_corpus(seed, 40 if tier == "quick" else 800)
    defs += corpus.class_shape_corpus(tier, seed)
    return defs


def engine_a_all(tier, seed):
    """base corpus + the definitions found in the repository's own tests/examples, merged"""
    import extract
    a = engine_a(tier, seed)
    b = engine_a(tier, seed, "repo", extract.repo_defs())
    m = dict(a)
    for k in ("defs", "accepted", "explored", "n_viol", "n_findings", "requests", "runs"):
        m[k] = a[k] + b[k]
    m["tlc"] = {k: a["tlc"][k] + b["tlc"][k] for k in ("states", "distinct", "wall")}
    m["tlc"]["depth"] = max(a["tlc"]["depth"], b["tlc"]["depth"])
    m["findings"] = a["findings"] + b["findings"]
    m["viol"] = a["viol"] + b["viol"]
    m["samples"] = a["samples"][:4] + b["samples"][:2]
    return m


def engine_a(tier, seed, name="base", defs=None):
    from attempt import attempt_run
    if defs is None:
        defs = base_corpus(tier, seed)
    return attempt_run(name, defs, tier, seed, ALL_CFGS)


def fkey(f):
    return "%s:%s:%s" % (f["def"], f["kind"], f["input"])


def as_violation(f):
    return {"key": fkey(f), "what": "%s on %s input=%s expected=%s got=%s (cfg %s)" % (
        f["kind"], f["def"], f["input"], json.dumps(f["expected"]), json.dumps(f["got"]), f["cfg"]),
        "definition": f.get("src"), "input_hex": f["input"], "expected": f["expected"], "got": f["got"],
        "cfg": f["cfg"], "mode": f["what"], "path": f.get("path")}


def a_coverage(r, extra=None):
    cov = {
        "states": r["tlc"]["distinct"], "transitions": r["tlc"]["states"],
        "traces_validated_against_impl": r["runs"],
        "samples": r["samples"],
        "definitions": r["defs"], "definitions_accepted_and_explored": r["explored"],
        "replay_requests": r["requests"], "configurations": r["cfgs"],
        "tlc_depth": r["tlc"]["depth"], "model_level_violations_logged": r["n_viol"],
        "graph_state_kinds_covered": r.get("state_kinds", {}),
        "rule": "Attempt.tla: every reachable product state (captured graph x reference automata x UTF-8) of every accepted "
                "corpus definition; one replay per product state x terminal block x {full, eoi, prefix}, run on the compiled lexers",
    }
    if extra:
        cov.update(extra)
    return cov


def expected_kind(f):
    return f["expected"].get("kind") if isinstance(f["expected"], dict) else None


def got_kind(f):
    return f["got"].get("kind") if isinstance(f["got"], dict) else None


def is_munch(f):
    """the wrong token, the wrong end, or a match missed / invented (C01)"""
    if f["kind"] not in ("munch", "err_span", "eoi", "crash"):
        return False
    return expected_kind(f) in ("tok", "skip") or got_kind(f) in ("tok", "skip")


def is_errspan(f):
    if f["kind"] not in ("munch", "err_span", "eoi", "crash"):
        return False
    return expected_kind(f) == "err" or got_kind(f) == "err"


ASSUME_A = [
    "regex-automata/regex-syntax give the meaning of a single pattern (reference automata are single-pattern anchored all-matches DFAs built from the pattern as written; literals are hand-built chains)",
    "priorities are the captured ones (their correctness is C09)",
    "the textbook meaning of patterns (Regex.tla Matches) is compared with the real lexers on the enumerated AST fragment only (RegexAgree); beyond it regex-syntax/regex-automata are trusted",
    "definitions are those of the corpus (shape corpus + seeded random + definitions extracted from the repository tests)",
    "within a byte block, the bytes not instantiated by the replay behave like the instantiated ones in the compiled code",
]


def check_C01(tier, seed, rest):
    t0 = time.time()
    r = engine_a_all(tier, seed)
    v = [as_violation(f) for f in r["findings"] if is_munch(f)]
    b = engine_b(tier, seed)
    v += [b_violation(f) for f in b["findings"] if f["kind"] == "seq_full"]
    from attempt import stages_run
    st = stages_run("base", base_corpus(tier, seed), tier)
    drift = ["after pass '%s' of Graph::new the graph of %s violates %s at path %s" % (x["stage"], x["def"], x["tag"], x["path"]) for x in st["viol"][:8]]
    drift += ["Compile.tla: pass '%s' of Graph::new computes a different graph than the specification's pass on %s" % (x["pass"], x["def"]) for x in st.get("passdiff", [])[:8]]
    drift += drift_lines(b, None)
    # the shape corpus exercises what it was written for: accepted / rejected as on the reference tree
    _dp, _metas, _ = capture(base_corpus(tier, seed), "base")
    for m in _metas:
        if m["id"].startswith(("rnd", "cls", "btab")):
            continue
        if m["accepted"] == (m["id"] in corpus.REJECTED_SHAPES):
            drift.append("shape definition %s is %s by the derive, the corpus was written for the opposite: %s" % (m["id"], "accepted" if m["accepted"] else "rejected", (m["errors"] or [""])[0][:160]))
    import front
    ra = front.regex_agree_run(tier, seed)
    v += ra["findings"]
    # EdgeImpl.tla: how byte classes become edge tests (comparisons with holes, tables, can_error, merge)
    import edge
    ei = edge.edge_run(tier, seed)
    drift += ei["drift"][:6]
    if ei["n_wrong"]:
        # a helper is wrong about some class: put those classes on the edges of real lexers and let Attempt.tla + replay decide
        cd = edge.confirm_defs(ei["wrong"])
        cr = engine_a(tier, seed, "edgeconfirm", cd)
        cv = [as_violation(f) for f in cr["findings"] if is_munch(f) or is_errspan(f)]
        v += cv
        if not cv:
            drift += ["EdgeImpl.tla: %s (not observable on the lexers built for that class)" % w["why"] for w in ei["wrong"][:6]]
    cov = a_coverage(r, {"edge_tests_EdgeImpl": {k: ei[k] for k in ("classes", "states_cases", "agree", "n_wrong")}, "edge_tests_samples": ei["samples"], "regex_agree": {k: ra[k] for k in ("patterns", "accepted", "words", "states")}, "regex_agree_samples": ra["samples"][:2], "graph_passes_transcribed_and_compared": st.get("compile"),
                         "graph_pass_snapshots_checked": st["graphs"], "graph_pass_states": st["tlc"]["distinct"], "graph_pass_violations": st["n_viol"],
                         "graphlex_model_of_generated_code": b.get("graphlex"), "sequence_level_behaviours_replayed": b["behaviours"]})
    cov["states"] += ei["tlc"]["distinct"]
    cov["transitions"] += ei["tlc"]["states"]
    cov["states"] += st["tlc"]["distinct"] + (b["graphlex"]["distinct"] if b.get("graphlex") else 0)
    cov["transitions"] += st["tlc"]["states"] + (b["graphlex"]["states"] if b.get("graphlex") else 0)
    finish("C01", tier, seed, "model_checking", cov, v, t0, ASSUME_A, drift)


def check_C02(tier, seed, rest):
    t0 = time.time()
    r = engine_a_all(tier, seed)
    v = [as_violation(f) for f in r["findings"] if is_errspan(f)]
    finish("C02", tier, seed, "model_checking", a_coverage(r), v, t0, ASSUME_A)


def check_C07(tier, seed, rest):
    t0 = time.time()
    r = engine_a_all(tier, seed)
    v = [as_violation(f) for f in r["findings"] if f["kind"].startswith("partial")]
    finish("C07", tier, seed, "model_checking", a_coverage(r), v, t0, ASSUME_A)


def literal_corpus(tier, seed):
    import random
    rng = random.Random(seed + 101)
    defs = [d for d in corpus.shape_corpus() if d["id"].startswith(("meta", "icase", "kw_", "ops", "two_tok", "emoji", "bytes_raw", "single"))]
    alphabet = list(".+*?()[]{}|^$\\-&<>=!%,:;@_~/`") + ["a", "B", "k", "K", "é", "É", "ß", "ſ", "σ", "ς", "Σ", "€", "😀", " ", "\n", "\t", "\"", "'", "#", "(?", "?&", "x", "->", "<<"]
    n = 30 if tier == "quick" else 400
    for k in range(n):
        lits = []
        for _ in range(rng.randint(1, 3)):
            w = "".join(rng.choice(alphabet) for _ in range(rng.randint(1, 4)))
            lits.append(w)
        leaves = []
        seenw = set()
        for w in lits:
            if w in seenw:
                continue
            seenw.add(w)
            kw = {}
            if rng.random() < 0.4:
                kw["icase"] = True
            leaves.append(corpus.tok(w, prio=rng.randint(1, 20), **kw))
        leaves.append(corpus.rx("[a-z]+", prio=1))
        skips = []
        if rng.random() < 0.3:
            skips.append(corpus.skip(rng.choice(["rem", "Ab", "é"]), icase=True, prio=30))
        defs.append(corpus.mk("lit%d_%d" % (seed, k), leaves, skips, tags=["literal"]))
    for k in range(n // 2):
        lits = []
        for _ in range(rng.randint(1, 3)):
            lits.append(bytes(rng.choice([0, 0x41, 0x61, 0x6b, 0x7f, 0x80, 0xc3, 0x89, 0xa9, 0xff, 0x2e, 0x5c, 0x28, 0x3c, 0x3e, 0x2d, 0x23, 0x7e, 0x20, 0x5d, 0x7b]) for _ in range(rng.randint(1, 3))))
        leaves = []
        seenw = set()
        for w in lits:
            if w in seenw:
                continue
            seenw.add(w)
            kw = {}
            if rng.random() < 0.4:
                kw["icase"] = True
            leaves.append(corpus.tok(w, prio=rng.randint(1, 20), **kw))
        leaves.append(corpus.rx(b"[a-z]+", prio=1))
        defs.append(corpus.mk("blit%d_%d" % (seed, k), leaves, utf8=False, tags=["literal"]))
    # every ASCII punctuation byte in a byte-string literal, with and without ignore(case)
    punct = [b for b in range(0x21, 0x7f) if not chr(b).isalnum()]
    for k in range(0, len(punct), 4):
        grp = punct[k:k + 4]
        defs.append(corpus.mk("bpunct%d" % k, [corpus.tok(bytes([0x61, b]), icase=True, prio=9) for b in grp] + [corpus.rx(b"[a-z]", prio=1)], utf8=False, tags=["literal"]))
        defs.append(corpus.mk("spunct%d" % k, [corpus.tok("a" + chr(b), icase=(b % 2 == 0), prio=9) for b in grp] + [corpus.rx("[a-z]", prio=1)], tags=["literal"]))
    # ignore(case) literals made of characters that fold although they are neither lowercase nor uppercase (titlecase letters,
    # the combining iota), alone and next to uncased and cased characters; byte-string literals around the ASCII boundary
    for k, w in enumerate(["ǅ", "ǅ1", "1ǲ", "ᾈ", "ῼ-", "ǈa", "ͅ", "ǋǅ", "ß1", "ſ", "K", "İ", "ı", "ς", "Ⓐ", "ⓐ", "ǆ", "Ǆ"]):
        defs.append(corpus.mk("fold%d" % k, [corpus.tok(w, icase=True, prio=9), corpus.rx("[a-z0-9]+", prio=1)], tags=["literal"]))
    for k, w in enumerate([b"\x7f", b"\x80", b"\x81", b"k\x80", b"\x80K", b"\x7f\x80\x81", b"\xc2\x80", b"\xbf", b"\xc0", b"\xff\x80"]):
        defs.append(corpus.mk("bfold%d" % k, [corpus.tok(w, icase=True, prio=9), corpus.rx(b"[a-z0-9]+", prio=1)], utf8=False, tags=["literal"]))
        defs.append(corpus.mk("bplain%d" % k, [corpus.tok(w, prio=9), corpus.rx(b"[a-z0-9]+", prio=1)], utf8=False, tags=["literal"]))
        defs.append(corpus.mk("brx%d" % k, [corpus.rx(list(w) + list(b"+x"), prio=9), corpus.rx(b"[a-z0-9]+", prio=1)], utf8=False, tags=["literal"]))
    # the KIND of the literal decides how ignore(case) folds it (str literal: Unicode simple folding, byte-string
    # literal: ASCII only), not the mode of the lexer: str literals in utf8 = false lexers, and byte-string literals
    # that are valid UTF-8 in str lexers, with characters on which the two foldings differ (é, k / Kelvin sign, s / long s)
    for k, w in enumerate(["élan", "kg", "s1", "Σ", "straße", "É", "ǆ"]):
        defs.append(corpus.mk("mixs%d" % k, [corpus.tok(w, icase=True, prio=9), corpus.rx(b"[a-z0-9]+", prio=1)], utf8=False, tags=["literal"]))
        defs.append(corpus.mk("mixsp%d" % k, [corpus.tok(w, prio=9), corpus.rx(b"[a-z0-9]+", prio=1)], utf8=False, tags=["literal"]))
        defs.append(corpus.mk("mixsr%d" % k, [corpus.rx(w, icase=True, prio=9), corpus.rx(b"[a-z0-9]+", prio=1)], utf8=False, tags=["literal"]))
    for k, w in enumerate(["été".encode(), b"kg", b"s1", "É".encode(), b"Kk", "ǆ".encode()]):
        defs.append(corpus.mk("mixb%d" % k, [corpus.tok(w, icase=True, prio=9), corpus.rx("[a-z0-9]+", prio=1)], tags=["literal"]))
        defs.append(corpus.mk("mixbp%d" % k, [corpus.tok(w, prio=9), corpus.rx("[a-z0-9]+", prio=1)], tags=["literal"]))
    defs += sub_icase_defs()
    # regex / skip with ignore(case)
    for k, p in enumerate(["ab+c", "[a-f]x", "straße", "ǆ+", "k|σ", "\\x41b"]):
        defs.append(corpus.mk("icrx%d" % k, [corpus.rx(p, icase=True, prio=5), corpus.rx("[a-zA-Z]+", prio=1)], tags=["literal"]))
        defs.append(corpus.mk("icsk%d" % k, [corpus.rx("[0-9]+", prio=1)], [corpus.skip(p, icase=True, prio=5)], tags=["literal"]))
    return defs


def check_C10(tier, seed, rest):
    t0 = time.time()
    r = engine_a(tier, seed, "lit", literal_corpus(tier, seed))
    v = [as_violation(f) for f in r["findings"] if f["kind"] in ("munch", "err_span", "eoi", "crash", "partial_wrong")]
    # "... and nothing else about the definition changes": every definition with ignore(case) next to the same definition
    # without the flag; apart from the pattern, every leaf must be the same (priority, kind, variant, callback)
    import copy
    flagged, plain = [], []
    for d in literal_corpus(tier, seed) + [corpus.mk("icprio%d" % k, [corpus.tok(w, icase=True), corpus.rx("[a-z]", prio=1)]) for k, w in enumerate(["\u00e9t\u00e9", "\u00e0", "k", "stra\u00dfe", "\u03c3\u03c2", "a\u20acb"])] \
            + [corpus.mk("icprios%d" % k, [corpus.rx("[0-9]", prio=1)], [corpus.skip(w, icase=True)]) for k, w in enumerate(["\u00e9+", "[\u00e0a]x", "k\u00df"])]:
        attrs = [a for var in d["vars"] for a in var["attrs"]] + list(d["skips"])
        if not any(a.get("icase") for a in attrs):
            continue
        tw = copy.deepcopy(d)
        tw["id"] = d["id"] + "__noic"
        for a in [a for var in tw["vars"] for a in var["attrs"]] + list(tw["skips"]):
            a.pop("icase", None)
        flagged.append(d)
        plain.append(tw)
    _, fm, _ = capture(flagged + plain, "litflag")
    n_flag = 0
    for m1, m2 in zip(fm[:len(flagged)], fm[len(flagged):]):
        if not (m1["captured_leaves"] and m2["captured_leaves"]):
            continue            # rejected before the leaves exist (e.g. the flag creates an ambiguity): nothing to compare
        n_flag += 1
        strip = lambda ls: [{k: x[k] for k in x if k != "pattern"} for x in ls]
        if strip(m1["captured_leaves"]) != strip(m2["captured_leaves"]):
            diff = [(a, b) for a, b in zip(m1["captured_leaves"], m2["captured_leaves"]) if {k: a[k] for k in a if k != "pattern"} != {k: b[k] for k in b if k != "pattern"}]
            v.append({"key": "%s:flag-changes-more" % m1["id"], "what": "ignore(case) changes more than the language of the pattern: %s" % (diff[:2],), "definition": m1["src"], "without_flag": m2["src"]})
    if n_flag == 0:
        raise ToolError("C10: no definition with ignore(case) was compared with its twin without the flag")
    finish("C10", tier, seed, "model_checking", a_coverage(r, {"flag_twins_compared": n_flag, "rule": "literal corpus: #[token] literals over regex metacharacters, cased non-ASCII, arbitrary bytes, with and without ignore(case), in token/regex/skip position; reference = hand-built byte chain, or per-character simple case folding; then Attempt.tla + replay"}), v, t0, ASSUME_A)


def sub_icase_defs():
    """ignore(case) on a regex / skip that references subpatterns: the flag covers the referenced text like text written in place"""
    out = []
    for k, (body, user) in enumerate([("select|from", "(?&s0)"), ("ab", "x(?&s0)y"), ("é|k", "(?&s0)+;"), ("[a-c]x", "q(?&s0)"), ("(?-i:ab)c", "(?&s0)d")]):
        out.append(corpus.mk("subic%d" % k, [corpus.rx(user, prio=9, greedy=True, icase=True), corpus.rx("[a-zA-Z;]", prio=1)], subs=[("s0", body)], tags=["sub"]))
        out.append(corpus.mk("subics%d" % k, [corpus.rx("[0-9]+", prio=1)], [corpus.skip(user, prio=9, icase=True)], subs=[("s0", body)], tags=["sub"]))
    out.append(corpus.mk("subicn", [corpus.rx("(?&s1)", prio=9, icase=True), corpus.rx("[a-zA-Z]", prio=1)], subs=[("s0", "ab"), ("s1", "(?&s0)c|d")], tags=["sub"]))
    out.append(corpus.mk("subicb", [corpus.rx(b"(?&s0)z", prio=9, icase=True), corpus.rx(b"[a-zA-Z]", prio=1)], subs=[("s0", b"ab")], utf8=False, tags=["sub"]))
    return out


def sub_corpus(tier, seed):
    import random
    rng = random.Random(seed + 202)
    defs = [d for d in corpus.shape_corpus() if d["id"].startswith("sub_")]
    bodies = ["a|b", "[0-9]+", "x?y", "(?i)k", "a|", "é|e", "(?-u:z)", "[^a]", "ab|a", "(a|b)*c", "q+?", "#[0-9a-f]+", "[#;]", "a #b", "\\#|x", "a\nb", " ", "\\x23"]
    # mixed Unicode modes: a str subpattern keeps its Unicode meaning inside a byte-string pattern
    # (and a byte-string subpattern its byte meaning inside a str pattern); only possible with utf8 = false
    mixed = [("[^a]", b"x(?&s0)"), (".", b"(?&s0)y"), ("\\w+", b"<(?&s0)>"), ("[^a-z]+", b"(?&s0);"), ("é|.", b"=(?&s0)")]
    for k, (body, user) in enumerate(mixed):
        defs.append(corpus.mk("submix%d" % k, [corpus.rx(user, prio=9, greedy=True), corpus.rx(rb"(?s-u:.)", prio=1)], subs=[("s0", body)], utf8=False, tags=["sub"]))
        defs.append(corpus.mk("submixn%d" % k, [corpus.rx(b"q(?&s1)", prio=9, greedy=True), corpus.rx(rb"(?s-u:.)", prio=1)], subs=[("s0", body), ("s1", b"(?&s0)z|w")], utf8=False, tags=["sub"]))
    for k, (body, user) in enumerate([(b"[\x80-\xff]", "(?&s0)+a"), (b"[^a]", "b(?&s0)"), (b".", "c(?&s0)c")]):
        defs.append(corpus.mk("submixb%d" % k, [corpus.rx(user, prio=9, greedy=True), corpus.rx("[a-z]", prio=1)], subs=[("s0", body)], utf8=False, tags=["sub"]))
    # a reference is textual inclusion in a group: the flags in force where the reference stands apply inside the
    # subpattern (only its Unicode mode is its own), and flags set inside it end with it
    flagged = [("ab", "(?i)x(?&s0)y"), ("ab", "x(?i)(?&s0)y"), ("ab", "x(?i:(?&s0))ab"), ("ab", "(?i)x(?-i:(?&s0))y"),
               ("a.b", "(?s)x(?&s0)"), ("a.b", "x(?&s0)|(?s:q(?&s0))"),
               ("a b", "(?x)x (?&s0) y"), ("a b # c\n", "(?x)x(?&s0)y"), ("[eE] [+-]? [0-9]+", "(?x) [0-9]+ (?&s0)"), ("a b", "x(?&s0)y"),
               ("a$", "(?m)x(?&s0)"), ("a$", "x(?&s0)"), ("a$", "(?Rm)x(?&s0)"),
               ("a+", "(?U)x(?&s0)a"), ("(?i)k", "(?&s0)k"), ("(?x) a b ", "(?&s0) c"), ("(?s).", "(?&s0)."), ("(?i)", "(?&s0)a")]
    for k, (body, user) in enumerate(flagged):
        defs.append(corpus.mk("subflag%d" % k, [corpus.rx(user, prio=9, greedy=True), corpus.rx("[a-zA-Z0-9 .+-]", prio=1)], subs=[("s0", body)], tags=["sub"]))
    for k, (body, user) in enumerate([("a b", "(?x)q (?&s1)"), ("ab", "(?i)q(?&s1)"), ("a.b", "q(?&s1)")]):
        defs.append(corpus.mk("subflagn%d" % k, [corpus.rx(user, prio=9, greedy=True), corpus.rx("[a-zA-Z0-9 .]", prio=1)],
                              subs=[("s0", body), ("s1", {"(?x)q (?&s1)": "(?&s0) z", "(?i)q(?&s1)": "(?&s0)z", "q(?&s1)": "(?s)(?&s0)z"}[user])], tags=["sub"]))
    for k, (body, user) in enumerate([(b"a b", b"(?x)x (?&s0) y"), (b"ab", b"(?i)x(?&s0)")]):
        defs.append(corpus.mk("subflagb%d" % k, [corpus.rx(user, prio=9, greedy=True), corpus.rx(b"[a-zA-Z ]", prio=1)], subs=[("s0", body)], utf8=False, tags=["sub"]))
    defs += sub_icase_defs()
    n = 25 if tier == "quick" else 300
    for k in range(n):
        subs = [("s0", rng.choice(bodies))]
        if rng.random() < 0.6:
            subs.append(("s1", rng.choice(["(?&s0)+", "(?&s0)x|y", "w(?&s0)", "(?&s0)(?&s0)"])))
        names = [s[0] for s in subs]
        leaves = []
        for _ in range(rng.randint(1, 3)):
            n1 = rng.choice(names)
            shape = rng.choice(["(?&%s)c", "c(?&%s)", "c(?&%s)d", "(?&%s)", "(?&%s)|zz", "(?&%s)+;", "x(?&%s)?y"]) % n1
            kw = {"prio": rng.randint(1, 20), "greedy": True}
            leaves.append(corpus.rx(shape, **kw))
        defs.append(corpus.mk("subr%d_%d" % (seed, k), leaves, subs=subs, tags=["sub"]))
    return defs


def check_C11(tier, seed, rest):
    t0 = time.time()
    r = engine_a(tier, seed, "sub", sub_corpus(tier, seed))
    v = [as_violation(f) for f in r["findings"] if f["kind"] in ("munch", "err_span", "eoi", "crash", "partial_wrong")]
    # a subpattern source that is not a regex on its own has no "non-capturing group holding the subpattern's source":
    # it must be rejected, or its parentheses / flags / alternations leak into the pattern that uses it
    bad = [("a)|(b", "x(?&s0)y"), ("a)(?i", "(?&s0)b"), ("a|b)(c", "(?&s0)"), ("(a", "(?&s0))"), ("a)", "((?&s0)"), ("a)|(?&s1", "x(?&s0))"), ("[a", "(?&s0)]"),
           # parentheses that are no group delimiters (inside a character class, escaped, inside a comment of verbose mode) around the stray one
           ("[(]a)|(b[)]", "x(?&s0)y"), ("\\(a)|(b\\)", "x(?&s0)y"), ("(?x)a # (\n)|(b", "x(?&s0)y"), ("[)]a)|(b[(]", "(?&s0)"), ("a[(])(?i", "(?&s0)b")]
    bdefs = [corpus.mk("subbad%d" % k, [corpus.rx(user, prio=9), corpus.rx("[a-z]", prio=1)], subs=[("s1", "q")] * (1 if "s1" in body else 0) + [("s0", body)], tags=["sub"]) for k, (body, user) in enumerate(bad)]
    bdefs += [corpus.mk("subbadb%d" % k, [corpus.rx(user.encode(), prio=9), corpus.rx(b"[a-z]", prio=1)], subs=[("s0", body.encode())], utf8=False, tags=["sub"]) for k, (body, user) in enumerate(bad[:4])]
    _, bmetas, _ = capture(bdefs, "subbad")
    for m in bmetas:
        if m["panic"]:
            v.append({"key": "%s:panic" % m["id"], "what": "derive panicked on a malformed subpattern: %s" % m["panic"][:200], "definition": m["src"]})
        elif m["accepted"]:
            v.append({"key": "%s:accepted" % m["id"], "what": "a subpattern whose source is not a regex on its own was accepted: its text leaks into the pattern that references it", "definition": m["src"]})
    cov = a_coverage(r, {"rule": "subpattern corpus: references at start/middle/end, alternations and inline flags inside subpatterns, nested references, byte-string subpatterns; reference = own inlining into non-capturing groups with the subpattern's own Unicode flag; then Attempt.tla + replay; "
                                 "%d definitions whose subpattern source is not a regex on its own (unbalanced parentheses, brackets, a flag group cut in two) must be rejected" % len(bdefs)})
    cov["malformed_subpattern_definitions"] = len(bdefs)
    finish("C11", tier, seed, "model_checking", cov, v, t0, ASSUME_A)


def check_C08(tier, seed, rest):
    t0 = time.time()
    import random
    rng = random.Random(seed + 303)
    defs = base_corpus(tier, seed)
    # overlap-biased definitions: pairs/triples of classes, repetitions, literals, look-around, icase
    pool = ["a", "ab", "[ab]", "[a-c]+", "[b-d]+", "a+", "a|b", "ab?", "a$", "a(?-u:\\b)", "(a|ab)", "[a-c]{2}", "ab*", "é", "[éa]"]
    n = 60 if tier == "quick" else 1200
    for k in range(n):
        leaves = []
        for _ in range(rng.randint(2, 4)):
            p = rng.choice(pool)
            kw = {}
            r = rng.random()
            if r < 0.35:
                kw["prio"] = rng.randint(1, 4)
            if rng.random() < 0.1:
                kw["icase"] = True
            if rng.random() < 0.3 and p.isalnum():
                leaves.append(corpus.tok(p, **kw))
            else:
                leaves.append(corpus.rx(p, **kw))
        defs.append(corpus.mk("ovl%d_%d" % (seed, k), leaves, tags=["overlap"]))
    defs_path, metas, capdir = capture(defs, "amb")
    res = run_tlc("Amb.tla", "Amb.cfg", {"DEFS": defs_path}, workers=8, metaname="amb")
    recs = tlc_records(res)
    ties = {}
    wit = {}
    for tag, sub, rec in recs:
        if tag == "TIE":
            for t in rec["ties"]:
                ties.setdefault(rec["d"], set()).add(tuple(sorted(t)))
                wit.setdefault((rec["d"], tuple(sorted(t))), rec["path"])
    tla_defs = [json.loads(l) for l in open(defs_path)]
    viol = []
    n_checked = 0
    n_tied = 0
    samples = []
    for td, m in zip(tla_defs, metas):
        if not td["refsOk"] or td["nL"] == 0 or any(rf["nullable"] for rf in td["ref"]):
            continue
        if "nostart" in m["gerrors"] or "empty" in m["gerrors"] or not m["captured_leaves"]:
            continue
        n_checked += 1
        spec_ties = ties.get(td["idx"], set())
        code_ties = set(tuple(sorted(t)) for t in td["ties"])
        if spec_ties:
            n_tied += 1
        if len(samples) < 6 and (spec_ties or len(samples) < 3):
            samples.append({"def": m["id"], "src": m["src"], "spec_ties": sorted(spec_ties), "reported": sorted(code_ties), "accepted": m["accepted"]})
        if spec_ties != code_ties:
            viol.append({"key": "%s:ties" % m["id"], "what": "tie sets differ on %s: specification %s, derive reported %s" % (m["id"], sorted(spec_ties), sorted(code_ties)),
                         "definition": m["src"], "witness_paths": {str(k[1]): v for k, v in wit.items() if k[0] == td["idx"]}, "blocks": m["blocks"]})
            continue
        if spec_ties and m["accepted"]:
            viol.append({"key": "%s:accepted" % m["id"], "what": "ambiguous definition accepted", "definition": m["src"]})
        # naming: every member of every tie set has a message that names all the others
        for t in spec_ties:
            for i in t:
                pat_i = m["captured_leaves"][i - 1]["pattern"]
                others = [m["captured_leaves"][j - 1]["pattern"] for j in t if j != i]
                ok = any(e.startswith("The pattern " + pat_i) and all(o in e.split("following variants:")[-1] for o in others) for e in m["errors"])
                if not ok:
                    viol.append({"key": "%s:naming:%s" % (m["id"], i), "what": "no diagnostic naming the conflict of leaf %d with %s" % (i, others), "definition": m["src"], "errors": m["errors"]})
        if not spec_ties and any("can match simultaneously" in e for e in m["errors"]):
            viol.append({"key": "%s:spurious" % m["id"], "what": "ambiguity diagnostic without a tie", "definition": m["src"], "errors": m["errors"]})
    cov = {"states": res["distinct"], "transitions": res["states"], "traces_validated_against_impl": n_checked,
           "samples": samples, "definitions": len(metas), "definitions_compared": n_checked, "definitions_with_ties": n_tied,
           "rule": "Amb.tla: reachable product of the per-pattern reference automata of every corpus definition (accepted or rejected); "
                   "family of top-priority tie sets compared with the Disambiguation errors captured from the real derive; diagnostic text checked for naming each member"}
    finish("C08", tier, seed, "model_checking", cov, viol, t0, ASSUME_A[:3])


# ------------------------------------------------------------------------------------------
# sequence level (engine B: LexSpec.tla + replay) and trace level (engine T: LexTrace.tla)

def lex_corpus(tier, seed):
    """sequence-level engines enumerate every input per definition: fewer definitions, deeper inputs"""
    if tier == "quick":
        return base_corpus(tier, seed)
    import extract
    return corpus.shape_corpus() + corpus.random_corpus(seed, 120) + extract.repo_defs()[:60]


def engine_b(tier, seed, name="base", defs=None, cfgs=None):
    from lexrun import lex_run
    if defs is None:
        defs = lex_corpus(tier, seed)
    if tier == "quick":
        return lex_run(name, defs, tier, seed, cfgs or ALL_CFGS, 4, 4)
    return lex_run(name, defs, tier, seed, cfgs or ALL_CFGS, 5, 5)


def engine_t(tier, seed, name="base", defs=None, cfgs=None):
    from tracerun import trace_run
    if defs is None:
        defs = lex_corpus(tier, seed)
    return trace_run(name, defs, tier, seed, cfgs or ALL_CFGS)


def b_violation(f):
    return {"key": "%s:%s:%s:%s" % (f["def"], f["kind"], f["input"], ",".join(map(str, f.get("splits") or []))),
            "what": "%s on %s input=%s splits=%s: %s (cfg %s)" % (f["kind"], f["def"], f["input"], f.get("splits"), f.get("why"), f["cfg"]),
            "definition": f.get("src"), "input_hex": f["input"], "splits": f.get("splits"), "expected": f.get("expected"), "got": f.get("got"), "cfg": f["cfg"]}


def t_violation(f):
    return {"key": "%s:%s:%s:%s" % (f["def"], f["kind"], f["input"], f.get("partial")),
            "what": "%s on %s input=%s partial=%s event=%s (cfg %s)" % (f["kind"], f["def"], f["input"], f.get("partial"), json.dumps(f.get("event")), f["cfg"]),
            "definition": f.get("src"), "input_hex": f["input"], "partial": f.get("partial"), "event": f.get("event"), "trace_tail": f.get("trace"), "got": f.get("got"), "cfg": f["cfg"]}


def b_coverage(b, t=None, extra=None):
    cov = {"states": b["tlc"]["distinct"], "transitions": b["tlc"]["states"],
           "traces_validated_against_impl": b["runs"] + (t["distinct_traces"] if t else 0),
           "samples": b["samples"][:4] + (t["samples"][:2] if t else []),
           "definitions": b["defs"], "definitions_explored": b["explored"], "behaviours_enumerated": b["behaviours"],
           "replay_requests": b["requests"], "configurations": b["cfgs"], "max_input_chars": b["maxlen"], "alphabet_chars": b["nchars"],
           "rule": "LexSpec.tla: every input of at most max_input_chars characters over a per-definition alphabet (chosen from the blocks the graph reacts to, one 'other' and one multi-byte character); "
                   "invariants + liveness checked by TLC; every behaviour replayed one-shot, partial on every prefix and chunked on the compiled lexers"}
    if b.get("graphlex"):
        cov["graphlex_model_of_generated_code"] = {k: b["graphlex"][k] for k in ("states", "distinct", "depth", "ok")}
        cov["states"] += b["graphlex"]["distinct"]
        cov["transitions"] += b["graphlex"]["states"]
    if t:
        cov.update({"trace_events_validated": t["events_consumed"], "trace_runs": t["runs"], "distinct_traces": t["distinct_traces"],
                    "graphtrace_traces_matching_the_model_exactly": t.get("graphtrace_accepted"), "graphtrace_events": t.get("graphtrace_events")})
    if extra:
        cov.update(extra)
    return cov


def drift_lines(b=None, t=None):
    out = []
    if b and b.get("graphlex") and not b["graphlex"]["ok"]:
        out.append("GraphLex.tla (model of the generated code on the captured graphs) violates one of its invariants: " + b["graphlex"]["tail"][-400:].replace("\n", " | "))
    if t:
        for dr in t.get("drift", [])[:5]:
            out.append("GraphTrace: hooked call differs from the GraphLex model on %s input=%s partial=%s at event %s" % (dr["def"], dr["input"], dr["partial"], json.dumps(dr["event"])))
    return out


ASSUME_B = ASSUME_A[:3] + ["inputs are bounded in length for the sequence-level enumeration (unbounded length is covered per attempt by Attempt.tla) and random/structured for trace validation"]


def check_C03(tier, seed, rest):
    t0 = time.time()
    b = engine_b(tier, seed)
    t = engine_t(tier, seed)
    a = engine_a(tier, seed)
    v = [b_violation(f) for f in b["findings"] if f["kind"] in ("seq_full", "crash") and f.get("mode") == "full"]
    v += [b_violation(f) for f in b["findings"] if f["kind"] == "spec_invariant" and f.get("invariant") in ("Progress", "Ordered", "Gaps", "EndsAtLen", "Variant")]
    v += [t_violation(f) for f in t["findings"] if f["kind"] in ("trace_next", "trace_ret", "trace_trivia", "crash") and not f.get("partial")]
    # no definition with a nullable pattern is accepted
    from pipeline import capture
    defs_path, metas, _ = capture(base_corpus(tier, seed), "base")
    n_null = 0
    for line, m in zip(open(defs_path), metas):
        td = json.loads(line)
        if td["refsOk"] and any(rf["nullable"] for rf in td["ref"]):
            n_null += 1
            if m["accepted"]:
                v.append({"key": "%s:nullable-accepted" % m["id"], "what": "definition with a pattern matching the empty string was accepted", "definition": m["src"]})
    drift = ["model-level %s on %s path=%s" % (x["tag"], x["id"], x["path"]) for x in a["viol"] if x["tag"] in ("TRoot", "TProg", "TNullable")][:10]
    drift += drift_lines(b, t)
    finish("C03", tier, seed, "model_checking", b_coverage(b, t, {"nullable_definitions_checked_rejected": n_null,
           "spec_properties": "Progress, Ordered, Gaps, EndsAtLen (invariants), Variant (action property), Terminates (<>done under WF)"}), v, t0, ASSUME_B, drift)


def str_only(defs):
    return [d for d in defs if d["utf8"]]


def check_C04(tier, seed, rest):
    t0 = time.time()
    defs = base_corpus(tier, seed)
    b = engine_b(tier, seed)
    t = engine_t(tier, seed)
    a = engine_a(tier, seed)
    str_ids = {d["id"] for d in defs if d["utf8"]}
    v = [b_violation(f) for f in b["findings"] if f["def"] in str_ids and f["kind"] in ("seq_full", "seq_partial", "seq_chunked", "crash", "badslice")]
    v += [b_violation(f) for f in b["findings"] if f["kind"] == "spec_invariant" and f.get("invariant") == "Boundaries"]
    v += [t_violation(f) for f in t["findings"] if f["def"] in str_ids and f["kind"] in ("trace_ret", "trace_endb", "trace_end", "crash")]
    v += [as_violation(f) for f in a["findings"] if f["def"] in str_ids and f["kind"] in ("crash",)]
    # acceptance clause: RefUtf8.tla
    from pipeline import capture
    defs_path, metas, _ = capture(defs, "base")
    res = run_tlc("RefUtf8.tla", "RefUtf8.cfg", {"DEFS": defs_path}, workers=8, metaname="refutf8")
    bad = {}
    for tag, sub, rec in tlc_records(res):
        if tag == "NONUTF8":
            bad.setdefault(rec["d"], {}).setdefault(rec["leaf"], rec["path"])
    n_non = 0
    for m in metas:
        if m["utf8"] and m["idx"] in bad:
            n_non += 1
            if m["accepted"]:
                v.append({"key": "%s:nonutf8-accepted" % m["id"], "what": "str-mode definition accepted although pattern(s) %s can match invalid UTF-8" % sorted(bad[m["idx"]]),
                          "definition": m["src"], "witness_block_paths": bad[m["idx"]], "blocks": m["blocks"]})
    if n_non == 0:
        raise ToolError("RefUtf8.tla flagged no str-mode definition of the corpus as matching invalid UTF-8 (the corpus contains such definitions: vacuous check)")
    # "... none of its patterns OR SUBPATTERNS": every subpattern on its own.  For each str-mode definition with subpatterns a
    # twin definition (utf8 = false, so that the derive's own UTF-8 check is out of the way) has one pattern `(?&name)` per
    # subpattern; RefUtf8.tla explores the reference automata of the twin; a subpattern that can match invalid UTF-8 while
    # the str-mode definition was accepted is a violation - also when the subpattern is never used, or when every pattern
    # that uses it completes it to valid UTF-8.
    mk, rx = corpus.mk, corpus.rx
    sub_defs = [mk("subnu0", [rx("[a-z]+")], subs=[("lead", r"(?-u:\xC3)")]),
                mk("subnu1", [rx(r"(?&lead)(?-u:\xA9)"), rx("[a-z]+")], subs=[("lead", r"(?-u:\xC3)")]),
                mk("subnu2", [rx("[a-z]+")], subs=[("any", r"(?s-u:.)")]),
                mk("subnu3", [rx(r"x(?&w)")], subs=[("w", "[a-z]+"), ("t", r"(?&w)(?-u:[\x80-\xBF])")]),
                mk("subnu4", [rx(r"(?&e)+"), rx("[0-9]")], subs=[("e", r"\xC3(?-u:\xA9)")]),
                mk("subok0", [rx(r"x(?&w)")], subs=[("w", "\u00e9+")]),
                mk("subok1", [rx(r"(?&d)+")], subs=[("d", r"(?-u:[0-9])")])]
    sub_defs += [d for d in defs if d["utf8"] and d["subs"]]
    twins = [{"id": d["id"] + "__subs", "utf8": False, "subs": d["subs"], "skips": [], "tags": [],
              "vars": [{"attrs": [rx("(?&%s)" % sp["name"], prio=k + 1)]} for k, sp in enumerate(d["subs"])]} for d in sub_defs]
    sp_path, sp_metas, _ = capture(sub_defs + twins, "subutf8")
    res_s = run_tlc("RefUtf8.tla", "RefUtf8.cfg", {"DEFS": sp_path}, workers=8, metaname="refutf8sub")
    bad_s = {}
    for tag, sub, rec in tlc_records(res_s):
        if tag == "NONUTF8":
            bad_s.setdefault(rec["d"], {}).setdefault(rec["leaf"], rec["path"])
    sp_tla = [json.loads(l) for l in open(sp_path)]
    by_id = {m["id"]: (m, td) for m, td in zip(sp_metas, sp_tla)}
    n_sub_checked = n_sub_non = 0
    for d in sub_defs:
        m, _td = by_id[d["id"]]
        tm, ttd = by_id[d["id"] + "__subs"]
        if not ttd["refsOk"]:
            continue
        n_sub_checked += 1
        if tm["idx"] in bad_s:
            n_sub_non += 1
            names = [d["subs"][l - 1]["name"] for l in sorted(bad_s[tm["idx"]])]
            if m["accepted"]:
                v.append({"key": "%s:nonutf8-subpattern-accepted" % d["id"], "what": "str-mode definition accepted although subpattern(s) %s can match invalid UTF-8" % names,
                          "definition": m["src"], "witness_block_paths": bad_s[tm["idx"]], "blocks": tm["blocks"]})
    if not all(by_id[i + "__subs"][0]["idx"] in bad_s for i in ("subnu0", "subnu1", "subnu2", "subnu3", "subnu4")) or any(by_id[i + "__subs"][0]["idx"] in bad_s for i in ("subok0", "subok1")):
        raise ToolError("RefUtf8.tla on subpattern twins: the definitions written to have (not to have) a subpattern matching invalid UTF-8 are not classified as such: %s" % sorted(bad_s))
    finish("C04", tier, seed, "model_checking", b_coverage(b, t, {"refutf8_states": res["distinct"] + res_s["distinct"], "str_definitions": len(str_ids),
           "str_definitions_with_non_utf8_pattern_all_rejected": n_non, "str_definitions_with_subpatterns_checked": n_sub_checked, "of_which_with_a_non_utf8_subpattern": n_sub_non,
           "spec_properties": "Boundaries (LexSpec invariant), T-utf8 (Attempt invariant), Utf8Only (RefUtf8), endb = RoundUp and boundary conjuncts of LexTrace; driver compares slice()/remainder() with source[span] after every call in all builds"}),
           v, t0, ASSUME_B)


def check_C20(tier, seed, rest):
    t0 = time.time()
    t = engine_t(tier, seed)
    b = engine_b(tier, seed)
    v = [t_violation(f) for f in t["findings"] if f["kind"] in ("trace_read", "trace_next", "trace_trivia")]
    # adversarial long inputs: nested / overlapping repetitions, linear read bound at length 10^4..10^5
    adv = adversarial_reads(tier, seed)
    v += adv["violations"]
    cov = b_coverage(b, t, {"adversarial": adv["summary"],
                            "spec_properties": "Read conjuncts of LexTrace: offset >= last offset of the attempt, #reads <= 4*(bytes examined)+8, next starts at the end of the last item"})
    finish("C20", tier, seed, "model_checking", cov, v, t0, ASSUME_B, drift_lines(b, t))


def adversarial_reads(tier, seed):
    """(a|aa)+b style definitions on a...a : validated by LexTrace with the RefNext conjunct off
    (CHECKRET=0) because the trace is long; read monotonicity and the linear bound stay on."""
    from pipeline import build_subjects, capture, run_subject
    from trace import reply_to_events, validate
    defs = [corpus.mk("adv_nested", [corpus.rx("(a|aa)+b"), corpus.rx("a")]),
            corpus.mk("adv_star", [corpus.rx("(a*)*c"), corpus.rx("a+")]),
            corpus.mk("adv_alt", [corpus.rx("(a|ab|abc)*d"), corpus.rx("[abc]")]),
            corpus.mk("adv_cnt", [corpus.rx("(aa|aaa)+;"), corpus.rx("a")])]
    defs_path, metas, _ = capture(defs, "adv")
    # (configuration, input length): the tail-call lexer of an UNOPTIMISED build uses stack in proportion to the
    # token length (every state transition is a call; documented upstream in book/src/state-machine-codegen.md),
    # so the long inputs of the thorough tier go to the optimised tail-call build and the state-machine build
    plan = [("tc", 5000), ("sm", 5000)] if tier == "quick" else [("tc", 5000), ("tc_rel", 100000), ("sm", 100000)]
    bins = build_subjects(metas, sorted({c for c, _ in plan}), "adv")
    n = max(k for _, k in plan)
    viol = []
    runs = []
    info = []
    for c, n_c in plan:
        reqs = []
        for m in metas:
            for unit, tail in (("61", ""), ("6162", ""), ("61", "62"), ("616161", "3b")):
                reqs.append(("%d ft4 %s*%d+%s" % (m["idx"], unit, n_c // (len(unit) // 2), tail), m, bytes.fromhex(unit) * (n_c // (len(unit) // 2)) + bytes.fromhex(tail)))
        reps = run_subject(bins[c], [r[0] for r in reqs], timeout=900)
        for (line, m, data), rep in zip(reqs, reps):
            if "items" not in rep:
                viol.append({"key": "%s:adv-crash:%s" % (m["id"], line.split(" ", 2)[2]), "what": "crash on long adversarial input (%s): %s" % (c, rep), "definition": m["src"]})
                continue
            runs.append(reply_to_events(m, list(data), False, rep))
            info.append((m, line, c))
    acc, rej, total = validate(defs_path, runs, "adv", cfg="LexTraceReads.cfg", jvms=8, per_file=60000)
    for r in rej:
        m, line, c = info[r["run"]]
        viol.append({"key": "%s:adv-reads:%s" % (m["id"], line.split(" ", 2)[2]), "what": "read trace rejected at event %s on %s (%s)" % (json.dumps(r["event"]), line[:60], c), "definition": m["src"]})
    return {"violations": viol, "summary": {"inputs": len(reqs) * len(plan), "length": n, "plan": ["%s:%d" % p for p in plan], "events_validated": total, "accepted": acc}}


REL_CFGS = ["tc", "tc_safe", "sm", "sm_safe", "tc_rel", "tc_safe_rel"]


def source_read_check(bins):
    """SourceRead.tla enumerates (len, off, n); replay on the real Source::read of every build."""
    from pipeline import run_subject
    res = run_tlc("SourceRead.tla", "SourceRead.cfg", {}, workers=4, metaname="srcread")
    if not res["ok"]:
        raise ToolError("SourceRead.tla: BoundsRule violated in the model:\n" + res["out"][-2000:])
    cases = [r[2] for r in tlc_records(res) if r[0] == "READ"]
    reqs = []
    for c in cases:
        off = c["off"]
        offs = str(off) if off < 12 else "MAX-%d" % (15 - off)
        for kind in ("str", "bytes", "string", "vec", "boxstr"):
            reqs.append(("R %s %d %s %d" % (kind, c["len"], offs, c["n"]), c, kind, offs))
    viol = []
    for cfg, b in bins.items():
        reps = run_subject(b, [r[0] for r in reqs], timeout=600)
        for (line, c, kind, offs), rep in zip(reqs, reps):
            exp_some = c["some"]
            ok = rep.get("some") == exp_some
            if ok and exp_some:
                size = 1 if c["n"] == 0 else c["n"]
                want = bytes((0x61 + (i % 26)) for i in range(c["off"], c["off"] + size)).hex()
                ok = rep.get("bytes") == want
            if not ok:
                viol.append({"key": "read:%s:%d:%s:%d" % (kind, c["len"], offs, c["n"]),
                             "what": "Source::read on %s len=%d offset=%s size=%d: expected some=%s, got %s (cfg %s)" % (kind, c["len"], offs, c["n"], exp_some, rep, cfg)})
    # char boundaries: is_boundary / find_boundary of str, String and [u8] for every text of at most 3
    # characters of 1..4 bytes, two concrete characters per length (one ending in 0xBF continuation bytes)
    bcases = [r[2] for r in tlc_records(res) if r[0] == "BOUNDARY"]
    def seq(x):
        return [x[str(i)] for i in range(len(x))] if isinstance(x, dict) else list(x)
    breqs = []
    for c in bcases:
        for chars in (["a", "\u00e9", "\u20ac", "\U0001f600"], ["z", "\u00bf", "\u0fff", "\U0003ffff"]):
            data = "".join(chars[k - 1] for k in c["text"]).encode()
            breqs.append(("B " + data.hex(), c, data))
    nb = 0
    for cfg, b in bins.items():
        reps = run_subject(b, [r[0] for r in breqs], timeout=600)
        for (line, c, data), rep in zip(breqs, reps):
            nb += 1
            exp = {"isb": seq(c["isb"]), "isb_string": seq(c["isb"]), "find": seq(c["find"]), "find_string": seq(c["find"]),
                   "isbytes": seq(c["isbytes"]), "findbytes": list(range(c["total"] + 1))}
            for k, v in exp.items():
                if rep.get(k) != v:
                    viol.append({"key": "boundary:%s:%s" % (k, data.hex()), "what": "Source %s on %r: expected %s, got %s (cfg %s)" % (k, data.decode(), v, rep.get(k, rep), cfg)})
    return viol, {"model_cases": len(cases) + len(bcases), "read_replays": len(reqs) * len(bins), "boundary_replays": nb, "states": res["distinct"]}


def check_C05(tier, seed, rest):
    t0 = time.time()
    from pipeline import build_subjects, capture
    defs = lex_corpus(tier, seed)
    t = engine_t(tier, seed, "base", defs, REL_CFGS)
    a = engine_a(tier, seed)
    b = engine_b(tier, seed)
    v = [t_violation(f) for f in t["findings"] if f["kind"] in ("trace_read", "trace_end", "trace_endb", "cfg_diff", "crash")]
    v += [as_violation(f) for f in a["findings"] if f["kind"] in ("cfg_diff", "crash", "guard_diff")]
    v += [b_violation(f) for f in b["findings"] if f["kind"] in ("crash", "badslice", "guard_diff")]
    defs_path, metas, _ = capture(defs, "base")
    bins = build_subjects(metas, REL_CFGS, "base")
    rv, rcov = source_read_check({c: bins[c] for c in ("tc", "tc_safe", "tc_rel", "tc_safe_rel")})
    v += rv
    cov = b_coverage(b, t, dict(rcov, configurations=REL_CFGS,
                                 spec_properties="Read conjunct of LexTrace (Some <=> offset+size <= len) on every hooked read; End/EndB conjuncts (span inside the source); SourceRead.BoundsRule; "
                                                 "event-by-event equality of default / forbid_unsafe / release builds; inputs are exactly-sized heap allocations of every length 0..17, 23..25, 31..33, 40; every replayed input is lexed again embedded in a larger buffer with three choices of neighbouring bytes (last byte repeated, UTF-8 continuation bytes, the source repeated) and must give the identical reply"))
    cov["states"] = cov["states"] + rcov["states"]
    finish("C05", tier, seed, "model_checking", cov, v, t0,
           ASSUME_B + ["all raw reads and unchecked slices of logos go through LexerInternal::read / Lexer::span (the two hooked choke points); an access that bypasses both (e.g. a changed Chunk::from_ptr) is outside what a TLA+ trace check can see"])


def check_C06(tier, seed, rest):
    t0 = time.time()
    from pipeline import build_subjects, capture, run_subject
    a = engine_a(tier, seed)
    b = engine_b(tier, seed)
    t = engine_t(tier, seed)
    def sm_tc(f):
        cs = f["cfg"].replace(",", "/").split("/")
        return any(c.startswith("sm") for c in cs) and any(c.startswith("tc") for c in cs)
    v = [as_violation(f) for f in a["findings"] if f["kind"] == "cfg_diff" and sm_tc(f)]
    v += [t_violation(f) for f in t["findings"] if f["kind"] == "cfg_diff" and sm_tc(f)]
    # any finding that shows in only one of the two code generators is a difference between them
    def only_one_backend(findings, keyf):
        by = {}
        for f in findings:
            if "/" in f["cfg"] or "," in f["cfg"]:
                continue
            by.setdefault(keyf(f), set()).add(f["cfg"][:2])
        return {k for k, s in by.items() if len(s) == 1}
    for k in only_one_backend(a["findings"], fkey):
        v.append({"key": "onlyone:" + k, "what": "finding present in only one code generator: " + k})
    for k in only_one_backend(b["findings"], lambda f: b_violation(f)["key"]):
        v.append({"key": "onlyone:" + k, "what": "finding present in only one code generator: " + k})
    # stack statement: state-machine lexer, stack use independent of token length and of the number of skips
    defs = [corpus.mk("stk_tok", [corpus.rx("[a-z]+"), corpus.rx("[0-9]")], [corpus.skip(" ")]),
            corpus.mk("stk_late", [corpus.rx(r"[a-z]+(?-u:\b)"), corpus.rx("[0-9]+x")], [corpus.skip("_")]),
            corpus.mk("stk_bytes", [corpus.rx(rb"(?s-u:.)*?;", greedy=True)], utf8=False)]
    defs_path, metas, _ = capture(defs, "stack")
    cfgs = ["sm", "sm_safe", "sm_rel"]
    bins = build_subjects(metas, cfgs, "stack")
    sizes = [1000, 100000] + ([1000000] if tier == "thorough" else [300000])
    shapes = [("stk_tok", "61", "20"), ("stk_tok", "20", "61"), ("stk_tok", "6120", ""), ("stk_late", "61", "20"), ("stk_late", "5f", "61"), ("stk_bytes", "78", "3b"), ("stk_bytes", "783b", "")]
    idx = {m["id"]: m["idx"] for m in metas}
    stack_rows = []
    for c in cfgs:
        reqs = []
        for (d, unit, tail) in shapes:
            for n in sizes:
                reqs.append(("%d fk %s*%d+%s" % (idx[d], unit, n // (len(unit) // 2), tail), d, unit, n))
        reps = run_subject(bins[c], [r[0] for r in reqs], timeout=1200)
        by_shape = {}
        for (line, d, unit, n), rep in zip(reqs, reps):
            if "stack" not in rep:
                v.append({"key": "stack:%s:%s:%d" % (d, unit, n), "what": "state-machine lexer did not survive input %s (cfg %s): %s" % (line[:40], c, rep)})
                continue
            by_shape.setdefault((d, unit), []).append((n, rep["stack"], rep["nev"]))
        for (d, unit), rows in by_shape.items():
            stack_rows.append({"cfg": c, "def": d, "unit": unit, "rows": rows})
            uses = [r[1] for r in rows]
            if max(uses) - min(uses) > 256:
                v.append({"key": "stack:%s:%s" % (d, unit), "what": "stack use of the state-machine lexer depends on the input length (cfg %s): %s" % (c, rows)})
    cov = b_coverage(b, t, {"stack_measurements": stack_rows[:6], "stack_input_lengths": sizes,
                            "attempt_replays_compared_across_generators": a["runs"],
                            "spec_properties": "same behaviours accepted by the same specification for tail-call and state-machine builds (Attempt replay, LexSpec replay, LexTrace), plus event-by-event equality of the traces; stack span of the hook probe constant over input lengths"})
    finish("C06", tier, seed, "model_checking", cov, v, t0, ASSUME_B + ["stack use is measured at the runtime hook (address of a local in verif::emit) on every read/end/trivia event"])


def check_C12(tier, seed, rest):
    t0 = time.time()
    import copy
    base = [d for d in base_corpus(tier, seed) if d["utf8"]]
    defs = []
    for d in base:
        defs.append(d)
        tw = copy.deepcopy(d)
        tw["id"] = d["id"] + "__bytes"
        tw["utf8"] = False
        tw["tags"] = list(d.get("tags", [])) + ["twin:" + d["id"]]
        defs.append(tw)
    b = engine_b(tier, seed, "modes", defs, ["tc", "sm_safe"])
    v = [b_violation(f) for f in b["findings"] if f["kind"] in ("mode_diff", "seq_full", "crash", "spec_invariant")]
    # a definition the derive accepts in str mode must also be accepted with utf8 = false
    from pipeline import capture as _cap
    _dp, _metas, _ = _cap(defs, "modes")
    _by = {m["id"]: m for m in _metas}
    for m in _metas:
        if m["id"].endswith("__bytes") and not m["accepted"] and _by.get(m["id"][:-7], {}).get("accepted"):
            v.append({"key": "%s:twin-rejected" % m["id"], "what": "definition accepted in str mode is rejected with utf8 = false: %s" % (m["errors"][:1],), "definition": m["src"]})
    ex = b["extra"]
    if ex.get("modes") and not ex["modes"]["ok"]:
        v.append({"key": "modes-spec", "what": "Modes.tla: SameInBothModes violated at specification level", "tlc": ex.get("modes_out")})
    # per attempt and for inputs of every length: the byte-mode twin of a str definition against the SAME reference
    # automata (Attempt.tla T-munch).  The enumerated alphabets above rarely contain the other-case form of a character,
    # so what ignore(case) and Unicode classes mean in the byte-mode twin is decided here.
    sens = [d for d in base if d["id"].startswith(("icase", "uni_", "greek", "cyr", "neg_cls", "emoji", "mixed_len", "sub_uni", "sub_word"))]
    sens += [d for d in literal_corpus(tier, seed) if d["utf8"] and d["id"].startswith(("fold", "icrx", "icsk", "mixb", "lit"))][: (40 if tier == "quick" else 400)]
    tw_defs = []
    for d in sens:
        tw = copy.deepcopy(d)
        tw["id"] = d["id"] + "__bytes"
        tw["utf8"] = False
        tw_defs.append(tw)
    ta = engine_a(tier, seed, "modesA", tw_defs)
    v += [as_violation(f) for f in ta["findings"] if f["kind"] in ("munch", "err_span", "eoi", "crash")]
    # acceptance: non-UTF-8 patterns only with utf8 = false
    from pipeline import capture
    defs_path, metas, _ = capture(base_corpus(tier, seed), "base")
    res = run_tlc("RefUtf8.tla", "RefUtf8.cfg", {"DEFS": defs_path}, workers=8, metaname="refutf8")
    bad = {}
    for tag, sub, rec in tlc_records(res):
        if tag == "NONUTF8":
            bad.setdefault(rec["d"], set()).add(rec["leaf"])
    n_b = 0
    for m in metas:
        if m["idx"] in bad and m["utf8"] and m["accepted"]:
            v.append({"key": "%s:nonutf8-accepted" % m["id"], "what": "pattern matching invalid UTF-8 accepted in str mode", "definition": m["src"]})
        if m["idx"] in bad and not m["utf8"]:
            n_b += 1
    if not bad:
        raise ToolError("RefUtf8.tla flagged no pattern of the corpus as matching invalid UTF-8 (the corpus contains such patterns: vacuous check)")
    cov = b_coverage(b, None, {"mode_pairs": ex.get("mode_pairs_compared", 0), "modes_tlc": ex.get("modes"), "byte_mode_definitions_with_non_utf8_patterns": n_b,
                               "spec_properties": "Modes.SameInBothModes (same Ok items, same error bytes) over all enumerated valid UTF-8 inputs; both variants replayed against LexSpec; real str output compared with real byte-mode output"})
    if ex.get("modes"):
        cov["states"] += ex["modes"]["distinct"]
    cov["states"] += ta["tlc"]["distinct"]
    cov["transitions"] += ta["tlc"]["states"]
    cov["byte_mode_twins_through_Attempt"] = {"definitions": ta["defs"], "explored": ta["explored"], "replay_requests": ta["requests"]}
    finish("C12", tier, seed, "model_checking", cov, v, t0, ASSUME_B)


# ------------------------------------------------------------------------------------------
# API engine

API_CFGS = ["tc", "tc_safe", "sm", "tc_rel", "tc_safe_rel"]


def api_violation(f):
    return {"key": "%s:%s:%s:%s:%s" % (f["pair"], f["kind"], f["input"], "p" if f["partial"] else "f", f["script"]),
            "what": "%s: pair %s input=%s partial=%s script=%s: %s (cfg %s)" % (f["kind"], f["pair"], f["input"], f["partial"], f["script"], f["why"], f["cfg"]),
            "expected": f["expected"], "got": f["got"], "cfg": f["cfg"], "script": f["script"], "input_hex": f["input"]}


def api_coverage(r):
    return {"states": r["tlc"]["distinct"], "transitions": r["tlc"]["states"], "traces_validated_against_impl": r["runs"],
            "samples": r["samples"], "histories": r["histories"], "configurations": r["cfgs"], "max_input_chars": r["maxlen"], "max_ops": r["maxops"],
            "simulated_traces_beyond_the_bound": r.get("simulated_traces"), "simulated_deep_states_replayed": r.get("simulated_deep_states"),
            "recorded_call_sequences_validated_by_ApiTrace": r.get("trace_runs"), "recorded_calls_validated_by_ApiTrace": r.get("trace_events"),
            "rule": "LexerAPI.tla: every reachable state of two lexer slots (A/B token types, spanned or not) over every input of at most max_input_chars characters and every history of at most max_ops operations "
                    "from {next, bump(n) for every n up to len+2 and usize::MAX-1, usize::MAX, clone, clone_from, morph, spanned}; plus every history of at most max_ops - 1 operations in which a fresh lexer over a SECOND source buffer (the same characters rotated by one) "
                    "takes part (clone / clone_from / morph / spanned carry the source along with the position; the observation includes which buffer source() refers to); "
                    "plus seeded random simulation (TLC -simulate) of histories of up to 12 operations over inputs of up to 6 characters, every state on the way replayed like an enumerated one; "
                    "one replayed history per distinct state x enabled operation, on debug and release, default and forbid_unsafe builds; "
                    "ApiTrace.tla (code -> spec): seeded random call sequences of 20-36 calls over inputs of 3-9 characters executed on the real API, every recorded call must be an operation LexerAPI.tla enables with the recorded result and observation, SpanInv invariant of the trace specification, "
                    "acceptance by postcondition; each run corrupts one recorded observation of the accepted trace and requires the rejection at that event"}


def check_C14(tier, seed, rest):
    t0 = time.time()
    from api import api_run
    r = api_run("api", tier, seed, API_CFGS)
    v = [api_violation(f) for f in r["findings"] if f["kind"] == "api"]
    # an IN-RANGE bump is part of C14's histories: one that the specification lets succeed and the lexer refuses
    # (or performs differently) breaks C14; what a bump does with an out-of-range argument is C15's business
    v += [api_violation(f) for f in r["findings"] if f["kind"] == "bump" and isinstance(f.get("expected"), dict) and f["expected"]["res"][0] == "ok"]
    finish("C14", tier, seed, "model_checking", api_coverage(r), v, t0, ["pairs of definitions are the three hand-written pairs of lib/api.py (str, str with multi-byte characters, bytes)", "reference lexer as in C01"])


def apalache_bump():
    """extra evidence, not the decider: SpanInv is inductive over unbounded integers for the repaired bump,
    and is not for the store-before-check variant (spec/apalache/BumpInv.tla)"""
    import subprocess
    d = os.path.join(os.path.dirname(os.path.dirname(os.path.abspath(__file__))), "spec", "apalache")
    out = {}
    for name, nxt in (("repaired_bump_inductive", "Next"), ("store_first_bump_inductive", "NextOld")):
        try:
            p = subprocess.run(["timeout", "300", "apalache-mc", "check", "--cinit=ConstInit", "--init=IndInit", "--next=" + nxt, "--inv=SpanInv", "--length=1",
                                "--out-dir=/tmp/apalache-out-%d" % os.getpid(), "BumpInv.tla"], cwd=d, capture_output=True, text=True)
            out[name] = "EXITCODE: OK" in p.stdout
        except Exception as e:
            out[name] = "not run: %s" % e
    subprocess.run(["rm", "-rf", "/tmp/apalache-out-%d" % os.getpid(), os.path.join(d, "_apalache-out")])
    return out


def check_C15(tier, seed, rest):
    t0 = time.time()
    from api import api_run
    r = api_run("api", tier, seed, API_CFGS)
    v = [api_violation(f) for f in r["findings"] if f["kind"] == "bump"]
    # the guard of bump is Source::is_boundary: SourceRead.tla's char-boundary cases (characters of 1 to 4 bytes, with
    # 80 and BF as continuation bytes, indices up to len + 2) replayed on str, String and [u8]
    from pipeline import build_subjects, capture
    _dp, _metas, _ = capture(lex_corpus(tier, seed), "base")
    _bins = build_subjects(_metas, ["tc", "tc_safe"], "base")
    rv, rcov = source_read_check(_bins)
    v += [x for x in rv if x["key"].startswith("boundary:")]
    cov15 = api_coverage(r)
    cov15["boundary_replays"] = rcov["boundary_replays"]
    cov15["apalache_unbounded_integers"] = apalache_bump()
    finish("C15", tier, seed, "model_checking", cov15, v, t0, ["usize::MAX-1 and usize::MAX stand for all values whose addition overflows", "after a caught panic the specification requires the lexer to be unchanged"])


# ------------------------------------------------------------------------------------------
# front end

def check_C19(tier, seed, rest):
    t0 = time.time()
    import front
    r = front.derive_run(tier, seed)
    g = front.greedy_run(tier, seed)
    h = front.huge_run()
    v = r["findings"] + g["findings"] + h["findings"]
    cov = {"evaluations": r["run"] + r["rustc_cases"] + g["cases"] + len(h["cases"]), "distinct_nontrivial": r["run"] + g["cases"], "samples": r["samples"] + g["samples"][:3],
           "enumerated_by_tlc": r["enumerated"], "library_runs": r["run"], "accepted": r["accepted"], "rejected": r["rejected"], "rustc_proc_macro_cases": r["rustc_cases"],
           "greedy_dot_patterns": g["cases"], "greedy_dot_patterns_that_must_be_rejected": g["greedy_cases"], "greedy_dot_agree": g["agree"], "huge_repetition_cases": h["cases"],
           "exhaustive": tier == "thorough",
           "rule": "Derive.tla enumerates the product variant shape x attribute form x enum-level form x second variant with the verdict the specification assigns; "
                   "every rendered source is distinct and non-trivial (an enum with at least one variant); quick = all single-feature deviations from a valid baseline + a seeded sample of 2 500, thorough = all; "
                   "each is run through logos_codegen::generate under catch_unwind (output that does not parse as Rust items counts like a panic), and a sample covering every feature value through rustc as a real proc macro on the stable toolchain. "
                   "Greedy-dot rule: Regex.tla (MODE = dot) enumerates every AST up to depth 2 over {a, [ab], ., (?s:.), [^\\n]} with cat / alt / greedy and lazy repetition / capture groups and assigns GreedyAll; "
                   "every pattern goes through the derive as #[regex] (a fifth also as skip, a fifth with allow_greedy): the greedy-dot diagnostic must be present exactly when GreedyAll holds. "
                   "Huge repetition counts (default priority beyond the machine word): one process each under a 3 GiB address-space limit; a panic is a violation, reaching the limit is recorded"}
    finish("C19", tier, seed, "exploration", cov, v, t0, ["the enumerated grammar is the input space (arbitrary token soup inside attributes is not generated)",
                                                         "accepted definitions are shown to work by the C01 replay of the corpus definitions, here only by compiling",
                                                         "termination is decided on patterns whose automata are small; for counted repetitions in the billions the derive needs more memory than the sandbox has and only panic-freedom up to that point is observed"])


def check_C18(tier, seed, rest):
    t0 = time.time()
    import front
    r = front.attr_run(tier, seed)
    cov = {"evaluations": 2 * r["cases"], "distinct_nontrivial": r["cases"], "samples": r["samples"], "exhaustive": True,
           "tlc_states": r["tlc"]["distinct"], "equivalent_to_canonical": r["equivalent"],
           "rule": "Attr.tla enumerates every permutation of every subset of the named arguments {priority, callback, ignore, allow_greedy} for token / regex / skip(...) with and without a positional callback, "
                   "and every dependency-respecting permutation of every subset (>= 2) of the #[logos(...)] items {skip(..), extras, error, subpattern a, subpattern b (uses a), utf8}; TLC also checks that the tokenizer model "
                   "(parser/nested.rs) splits each argument list like the abstract grammar; each case is run through the real derive and compared with its canonical order: same verdict, same captured leaves, priorities and final graph"}
    finish("C18", tier, seed, "exploration", cov, r["findings"], t0, ["argument values are fixed representatives (priority = 7, ignore(case), allow_greedy = true, a closure callback)"])


def check_C17(tier, seed, rest):
    t0 = time.time()
    import front
    r = front.cli_run(tier, seed)
    cov = {"evaluations": r["strip_cases"] + r["item_cases"] + r["history_steps"], "distinct_nontrivial": r["strip_cases"] + r["item_cases"] + r["histories"], "samples": r["samples"],
           "tlc_states": r["tlc"]["distinct"], "strip_cases": r["strip_cases"], "item_cases": r["item_cases"], "item_cases_enumerated_by_tlc": r["item_cases_enumerated"], "file_histories": r["histories"], "file_history_steps": r["history_steps"],
           "rule": "Cli.tla part 1: enum sources = derive lists (every sequence of 1..3 distinct entries of {Debug, Logos, Clone, serde::Serialize, logos::Logos, ::logos::Logos, ::core::fmt::Debug}, separated by comma-space or by a bare comma, with/without trailing comma, optional second derive attribute) "
                   "x other attributes (doc+repr before, cfg_attr after, allow between logos attributes) x 0..2 #[logos] attributes x LF / CRLF line endings, over a fixed body with variant docs, cfg, two regex attributes on one variant, a field attribute and two string literals containing a line break; "
                   "the real binary's stdout must parse as Rust, its first item must equal the expected stripped enum (derive lists compared as lists of paths) and the rest must equal generate()'s output for the LF text (what rustc hands to the derive). "
                   "Part 1b (Items): visibility (pub, none, pub(crate)) x generics (none, lifetime, bounded type parameter, where clause) x every sequence of up to 3 attributes of {token, regex, serde, token_kind, logos_ext} on a variant "
                   "x what the variant carries (nothing, a field, a field with an attribute of its own, an explicit discriminant) x enum-level attributes interleaved with #[logos] ones; KeepAttrs of Cli.tla says what must remain (exactly logos / token / regex go, look-alikes stay, order kept). "
                   "Part 2: every history of write / check / write --format / check --format / five kinds of damage / crlf / addeol / delete up to the bound (a file holding the unformatted output is not up to date for --format, and vice versa), exit status and file state compared after every step; distinct = distinct sources + distinct histories"}
    finish("C17", tier, seed, "exploration", cov, r["findings"], t0, ["part 1: the enum body is fixed, attribute placement and derive lists vary; part 1b: the derive list is fixed, the item varies", "--format: rustfmt of this sandbox; only its being different from the unformatted text matters"])


def check_C09(tier, seed, rest):
    t0 = time.time()
    import front
    r = front.prio_run(tier, seed)
    cov = {"evaluations": r["cases"], "distinct_nontrivial": r["cases"], "samples": r["samples"], "tlc_states": r["tlc"]["distinct"], "asts": r["asts"], "agree": r["agree"],
           "asts_bytes_mode": r["asts_bytes"], "asts_bytes_mode_enumerated": r["asts_bytes_enumerated"],
           "rule": "Regex.tla enumerates every AST up to depth 2 over atoms {a, ab, e', e'a, [ab], [ae'], [abe'], $} with cat / alt / rep (8 bound pairs) and checks LiteralNotBeaten (Matches(r,w) => Complexity(r) <= 2*bytes(w), words up to 3 chars) on each; "
                   "every rendered pattern (distinct text) is run through the real derive as #[regex], and a seventh of them also as skip, with ignore(case) and with an explicit priority; literal tokens incl. multi-byte, metacharacter and byte-string ones; "
                   "MODE = bytes: the same over {a, e', E2 82 (a truncated sequence), FF, E2 82 a, e' FF, a E2 82, [a FF], $} for utf8 = false definitions, where a literal run counts its characters when it is valid UTF-8 and its bytes otherwise "
                   "(alternations whose branches start with the same literal symbol are outside the fragment); quick = all small ASTs + a seeded sample, thorough = all"}
    finish("C09", tier, seed, "exploration", cov, r["findings"], t0, ["the rendering AST -> regex text is the harness's", "that a literal then wins or an ambiguity is reported follows from C01/C08 on the corpus"])


def check_C16(tier, seed, rest):
    t0 = time.time()
    import front
    defs = base_corpus(tier, seed)
    defs += [d for d in literal_corpus(tier, seed)[:40]]
    # definitions with many states, many errors and more than 8 loop masks, so that every sorted site has several entries
    defs.append(corpus.mk("det_luts", [corpus.rx("[%s]+[0-9]" % c) for c in ["a-c", "d-fx", "g-iy", "j-lz", "m-oA", "p-rB", "s-uC", "v-wD", "E-GE", "H-JF", "K-MG", "N-PH"]]))
    defs.append(corpus.mk("det_errs", [corpus.rx("[a-f]+"), corpus.rx("[d-k]+"), corpus.rx("[j-p]+"), corpus.rx("[o-z]+"), corpus.rx("[a-z]{2}")]))
    defs.append(corpus.mk("det_kw", [corpus.tok(k) for k in ["as", "async", "await", "break", "const", "continue", "crate", "dyn", "else", "enum", "extern", "false", "fn", "for", "if", "impl", "in", "let", "loop", "match", "mod", "move", "mut", "pub", "ref", "return", "self", "static", "struct", "super", "trait", "true", "type", "unsafe", "use", "where", "while"]] + [corpus.rx(r"\p{XID_Start}\p{XID_Continue}*")]))
    # rejected definitions whose diagnostics have something to order: several conflict sets that share their lowest
    # pattern, conflict sets nested in one another, conflicts next to an empty match, many UTF-8 errors
    defs.append(corpus.mk("det_share_low", [corpus.rx("[ab]"), corpus.tok("a"), corpus.tok("b")]))
    defs.append(corpus.mk("det_share_low4", [corpus.rx("[a-d]"), corpus.tok("d"), corpus.tok("c"), corpus.tok("b"), corpus.tok("a")]))
    defs.append(corpus.mk("det_nested_sets", [corpus.rx("[ab]x?"), corpus.rx("ax?"), corpus.rx("a"), corpus.rx("[ab]")]))
    defs.append(corpus.mk("det_share_high", [corpus.tok("a"), corpus.tok("b"), corpus.rx("[ab]")]))
    defs.append(corpus.mk("det_many_nonutf8", [corpus.rx(b"\xff"), corpus.rx(b"\xfe+"), corpus.tok(b"\xfd"), corpus.rx("[a-z]")], [corpus.skip(b"\xfc")]))
    # the same attribute text in different definitions, meaning different things (a subpattern of the same name with
    # another body; another Unicode mode; another error type): nothing may carry over from one derive to the next
    defs.append(corpus.mk("det_ctx_a", [corpus.rx("(?&w)x"), corpus.tok("q")], subs=[("w", "a+")]))
    defs.append(corpus.mk("det_ctx_b", [corpus.rx("(?&w)x"), corpus.tok("q")], subs=[("w", "b|c")]))
    defs.append(corpus.mk("det_ctx_c", [corpus.rx("(?&w)x"), corpus.tok("q")], subs=[("w", "[0-9]{2}")]))
    defs.append(corpus.mk("det_ctx_d", [corpus.rx(b"(?&w)x"), corpus.tok(b"q")], subs=[("w", b"[\x80-\xff]")], utf8=False))
    defs.append(corpus.mk("det_ctx_e", [corpus.rx("[a-z]+"), corpus.tok("q")], [corpus.skip("(?&w)")], subs=[("w", " +")]))
    defs.append(corpus.mk("det_ctx_f", [corpus.rx("[a-z]+"), corpus.tok("q")], [corpus.skip("(?&w)")], subs=[("w", "_|-")]))
    defs += [d for d in sub_corpus(tier, seed) if d["id"].startswith(("subr", "subflag"))][:30]
    seen = set()
    defs = [d for d in defs if not (d["id"] in seen or seen.add(d["id"]))]
    r = front.det_run(tier, seed, defs)
    cov = {"evaluations": r["events"], "distinct_nontrivial": r["keys"], "samples": r["samples"], "threads_per_process": r["threads"], "processes_per_generator": r["processes"], "definitions": r["definitions"],
           "rule": "generate() and strip_attributes() for every corpus definition on every thread of every process, tail-call and state-machine generators; one event per (definition, generator, process, thread) with digests of the output text, "
                   "the captured final graph and the stripped enum; GenTrace.tla accepts the shuffled event trace iff every key has a single digest; distinct = (definition, generator) keys"}
    finish("C16", tier, seed, "exploration", cov, r["findings"], t0, ["hash seeds are those RandomState draws per thread/process; no seed is forced", "digest = two 64-bit FNV-1a passes + length"])


def check_C13(tier, seed, rest):
    t0 = time.time()
    from cbrun import cb_run
    r = cb_run(tier, seed, ALL_CFGS)
    v = [{"key": "%s:cb:%s" % (f["def"], f["input"]), "what": "%s input=%s: %s (cfg %s)" % (f["def"], f["input"], f["why"], f["cfg"]),
          "definition": f["src"], "expected": f["expected"], "got": f["got"]} for f in r["findings"]]
    cov = {"states": r["tlc"]["distinct"], "transitions": r["tlc"]["states"], "traces_validated_against_impl": r["runs"], "samples": r["samples"],
           "behaviours": r["behaviours"], "configurations": r["cfgs"], "definitions": r["defs"], "max_input_chars": r["maxlen"],
           "rule": "Callbacks.tla: 10 definitions attaching every callback return type of the documented table (unit: (), bool, Skip, Result<Skip,E>, Filter<()>; value: T, Option, Result, Filter, FilterResult; "
                   "any-token: Self, Result<Self,E>, Filter<Self>, FilterResult<Self,E>; skip callbacks: (), Skip, Result<(),E>, Result<Skip,E>; bump inside a callback before every kind of decision (emit, false, Err(e), Filter::Skip, Skip, and from the callback of a skip pattern; str and bytes); error callback; inline closures whose body starts with a (..), {..} or [..] group and continues after it), decisions = len % 4; "
                   "every input up to max_input_chars characters, lexed by an ordinary AND by a partial lexer (Lexer::new_partial: items and callback invocations up to the first None); expected items and expected callback invocation list replayed on 4 builds; "
                   "SkipTransparent (twin pair) and PartialIsPrefix (a partial lexer commits, and calls back for, a leading run of the one-shot stream) checked by TLC"}
    finish("C13", tier, seed, "model_checking", cov, v, t0, ["callback decisions depend on the match length only", "reference lexer as in C01"])
