"""Property checks: one function per property id; shared engines are cached per tree hash."""
import json
import os
import sys
import time
import traceback

import corpus
from pipeline import ToolError, finish, log, repo_hash

ALL_CFGS = ["tc", "tc_safe", "sm", "sm_safe"]


def args_of(argv):
    tier = os.environ.get("VERIF_TIER", "quick")
    seed = int(os.environ.get("VERIF_SEED", "0") or 0)
    rest = []
    i = 0
    while i < len(argv):
        a = argv[i]
        if a == "--tier":
            tier = argv[i + 1]
            i += 2
        elif a == "--seed":
            seed = int(argv[i + 1])
            i += 2
        else:
            rest.append(a)
            i += 1
    return tier, seed, rest


def base_corpus(tier, seed):
    defs = corpus.shape_corpus()
    if tier == "quick":      # byte-table boundary shapes: the quick tier keeps the boundaries 00, 7F, 80 and FF
        defs = [d for d in defs if not d["id"].startswith("btab_") or d["id"][-2:] in ("00", "7f", "80", "ff")]
    n = 40 if tier == "quick" else 600
    defs += corpus.random_corpus(seed, n)
    defs += corpus.class_shape_corpus(tier, seed)
    return defs


def dev_attempt(tier, seed, rest):
    from attempt import attempt_run
    defs = base_corpus(tier, seed)
    if rest:
        defs = [d for d in defs if any(r in d["id"] for r in rest)]
    r = attempt_run("dev", defs, tier, seed, ALL_CFGS)
    print(json.dumps({k: r[k] for k in ("tlc", "defs", "accepted", "explored", "n_viol", "n_findings", "requests", "runs", "wall")}))
    seen = set()
    for v in r["viol"]:
        k = (v["id"], v["tag"])
        if k in seen:
            continue
        seen.add(k)
        print("VIOL", v["id"], v["tag"], v["path"], v["w"])
    seen = set()
    for f in r["findings"]:
        k = (f["def"], f["kind"], f["cfg"])
        if k in seen:
            continue
        seen.add(k)
        print("FINDING", f["def"], f["cfg"], f["kind"], f["what"], f["input"], "exp", f["expected"], "got", f["got"])


def dev_lex(tier, seed, rest):
    from lexrun import lex_run
    defs = base_corpus(tier, seed)
    if rest:
        defs = [d for d in defs if any(r in d["id"] for r in rest)]
    r = lex_run("devlex", defs, tier, seed, ALL_CFGS, 4 if tier == "quick" else 6, 4 if tier == "quick" else 5)
    print(json.dumps({k: r[k] for k in ("tlc", "defs", "explored", "behaviours", "n_findings", "requests", "runs", "wall")}))
    seen = set()
    for f in r["findings"]:
        k = (f["def"], f["kind"], f["cfg"])
        if k in seen:
            continue
        seen.add(k)
        print("FINDING", f["def"], f["cfg"], f["kind"], f["input"], f.get("splits"), f["why"])


def dev_trace(tier, seed, rest):
    from tracerun import trace_run
    defs = base_corpus(tier, seed)
    if rest:
        defs = [d for d in defs if any(r in d["id"] for r in rest)]
    r = trace_run("devtrace", defs, tier, seed, ALL_CFGS)
    print(json.dumps({k: r[k] for k in ("defs", "explored", "requests", "runs", "distinct_traces", "accepted", "events", "n_findings", "graphtrace_accepted", "n_drift", "wall")}))
    for dr in r["drift"][:8]:
        print("DRIFT", dr)
    seen = set()
    for f in r["findings"]:
        k = (f["def"], f["kind"])
        if k in seen:
            continue
        seen.add(k)
        print("FINDING", f["def"], f["cfg"], f["kind"], f["input"], f.get("partial"), f.get("event"), f.get("trace"))


def main(argv):
    tier, seed, rest = args_of(argv)
    if not rest:
        print("usage: check <property|dev-...> [--tier quick|thorough] [--seed n]")
        sys.exit(2)
    prop = rest[0]
    try:
        if prop == "dev-attempt":
            dev_attempt(tier, seed, rest[1:])
            return
        if prop == "dev-trace":
            dev_trace(tier, seed, rest[1:])
            return
        if prop == "replay":
            from replay import replay
            sys.exit(replay(rest[1]))
        if prop == "selftest":
            from selftest import selftest
            sys.exit(0 if selftest(tier, seed) else 1)
        if prop == "dev-lex":
            dev_lex(tier, seed, rest[1:])
            return
        import props
        fn = getattr(props, "check_" + prop, None)
        if fn is None:
            print("unknown property", prop)
            sys.exit(2)
        fn(tier, seed, rest[1:])
    except ToolError as e:
        print("TOOL-ERROR:", str(e)[:8000])
        sys.exit(2)
    except SystemExit:
        raise
    except Exception:
        traceback.print_exc()
        print("TOOL-ERROR: internal error")
        sys.exit(2)
