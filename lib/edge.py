"""EdgeImpl.tla: the edge-test helpers of the graph module (impl_with_cmp, count_ops, to_table, can_error, merge).
TLC enumerates byte classes / states from a boundary-biased family, checks that the transcribed algorithm is exact
and prints, per case, what it computes; the real functions are asked the same cases through the hook.
  * the real result means something else than the class (a byte for which the comparisons / the table differ from
    membership, can_error wrong, merge not the union): the class is put on the edges of real lexer definitions
    (corpus.class_defs) and those go through Attempt.tla + replay; what fails THERE is the violation
  * the real result is right but not what the transcription computes: SPEC-DRIFT"""
import json
import os
import time

from pipeline import ToolError, build_gen, harness_hash, run, run_tlc, sha, tlc_records, workdir, log


def members(cls):
    return {b for lo, hi in cls for b in range(lo, hi + 1)}


def cmp_holds(cmps, b):
    for m in cmps:
        if m["lo"] == m["hi"]:
            if b == m["lo"]:
                return True
        elif m["lo"] <= b <= m["hi"] and b not in m["except"]:
            return True
    return False


def edge_run(tier, seed):
    t0 = time.time()
    # quick: classes of up to 2 ranges over the small family; thorough: up to 2 ranges over the large family (3 ranges
    # over the large family is hours of TLC time for no new kind of shape: a third range only repeats the folding step)
    env = {"FAM": "small" if tier == "quick" else "big", "MAXRANGES": "2"}
    cache = os.path.join(workdir(), "edge-%s-%s.json" % (tier, sha(harness_hash(), json.dumps(env))[:12]))
    if os.path.exists(cache):
        return json.load(open(cache))
    res = run_tlc("EdgeImpl.tla", "EdgeImpl.cfg", env, workers=6, metaname="edge", timeout=900 if tier == "quick" else 6000, xss="256m")
    if not res["ok"]:
        raise ToolError("EdgeImpl.tla: the transcribed algorithm violates its own statement (CmpExact / CanErrorExact / MergeExact):\n" + res["out"][-3000:])
    edges, states = [], []
    for tag, sub, rec in tlc_records(res):
        if tag == "EDGE":
            edges.append(rec)
        elif tag == "STATE":
            states.append(rec)
    if not edges or not states:
        raise ToolError("EdgeImpl.tla printed no cases")
    d = os.path.join(workdir(), "edge-%d" % os.getpid())
    os.makedirs(d, exist_ok=True)
    inp, outp = os.path.join(d, "in.ndjson"), os.path.join(d, "out.ndjson")
    with open(inp, "w") as f:
        for e in edges:
            f.write(json.dumps({"classes": [e["cls"]]}) + "\n")
        for s in states:
            f.write(json.dumps({"classes": s["edges"]}) + "\n")
    run([build_gen(), "edgeimpl", inp, outp], timeout=1800)
    outs = [json.loads(l) for l in open(outp)]
    if len(outs) != len(edges) + len(states):
        raise ToolError("edgeimpl returned %d replies for %d requests" % (len(outs), len(edges) + len(states)))
    wrong, drift = [], []
    agree = 0
    for e, o in zip(edges, outs):
        cls = [tuple(r) for r in e["cls"]]
        mem = members(cls)
        if o.get("panic"):
            wrong.append({"cls": cls, "why": "the helper panicked"})
            continue
        real = o["classes"][0]
        bad = [b for b in range(256) if cmp_holds(real["cmp"], b) != (b in mem)]
        tab = set(real["table"])
        if bad:
            wrong.append({"cls": cls, "why": "impl_with_cmp %s differs from the class on bytes %s" % (real["cmp"], bad[:6])})
        elif tab != mem:
            wrong.append({"cls": cls, "why": "to_table differs from the class on bytes %s" % sorted(tab ^ mem)[:6]})
        else:
            model = [{"lo": m["lo"], "hi": m["hi"], "except": list(m["except"]), "ops": k} for m, k in zip(e["cmp"], e["ops"])]
            realn = [{"lo": m["lo"], "hi": m["hi"], "except": list(m["except"]), "ops": m["ops"]} for m in real["cmp"]]
            if model != realn:
                drift.append("EdgeImpl.tla: class %s is implemented as %s, the transcription computes %s" % (cls, realn, model))
            else:
                agree += 1
    for s, o in zip(states, outs[len(edges):]):
        es = [[tuple(r) for r in c] for c in s["edges"]]
        if o.get("panic"):
            wrong.append({"cls": es[0], "why": "the helper panicked on a state"})
            continue
        covered = set().union(*[members(c) for c in es])
        truth = len(covered) < 256
        if o["can_error"] != truth:
            wrong.append({"cls": es[0], "edges": es, "why": "can_error = %s for edges %s (a byte without an edge %s)" % (o["can_error"], es, "exists" if truth else "does not exist")})
            continue
        un = members(es[0]) | members(es[1]) if len(es) > 1 else members(es[0])
        # merge() folds ALL other edges into the first one
        un = set().union(*[members(c) for c in es])
        got = members([tuple(r) for r in o["merged"]])
        wf = all(a[1] + 1 < b[0] for a, b in zip(o["merged"], o["merged"][1:]))
        if got != un or not wf:
            wrong.append({"cls": es[0], "edges": es, "why": "merge gives %s for %s" % (o["merged"], es)})
        elif o["can_error"] != s["canError"]:
            drift.append("EdgeImpl.tla: can_error of %s" % es)
        else:
            agree += 1
    import shutil
    shutil.rmtree(d, ignore_errors=True)
    out = {"tlc": {k: res[k] for k in ("states", "distinct", "wall")}, "classes": len(edges), "states_cases": len(states), "agree": agree,
           "wrong": wrong[:50], "n_wrong": len(wrong), "drift": drift[:20], "samples": [edges[len(edges) // 3], states[len(states) // 2]], "wall": time.time() - t0}
    log("[edge] TLC %d states; %d classes + %d states through the real helpers, %d agree, %d wrong, %d drift" % (res["distinct"], len(edges), len(states), agree, len(wrong), len(drift)))
    with open(cache, "w") as f:
        json.dump(out, f)
    return out


def confirm_defs(wrong):
    """real lexer definitions that carry the wrongly implemented classes on their edges"""
    import corpus
    out = []
    seen = set()
    for k, w in enumerate(wrong[:12]):
        cls = tuple(w["cls"])
        if cls in seen or not cls:
            continue
        seen.add(cls)
        out += corpus.class_defs("edge%d" % k, [tuple(r) for r in cls])
    # a wrong merge shows only where two edges are merged: definitions in which the de-duplication pass folds their targets
    for k, w in enumerate([w for w in wrong if w.get("edges") and w["why"].startswith("merge")][:8]):
        out += corpus.merge_defs("edge%d" % k, [[tuple(r) for r in c] for c in w["edges"]])
    return out
