"""Engine D: the front end.  TLC enumerates programs (enum sources, attribute permutations, regex
ASTs, CLI histories) with the verdict / priority / file state the specification assigns; the harness
renders them and runs the real derive (library and rustc), and the real logos-cli."""
import json
import os
import random
import re
import shutil
import subprocess
import time

from pipeline import (ENV_BASE, HARNESS, REPO, WORK, ToolError, build_gen, harness_hash, log, repo_hash, run, run_tlc, sha,
                      tlc_records, workdir)

# ------------------------------------------------------------------------------------------
# C19: Derive.tla


def render_derive(inp):
    shape, attr, enum, second = inp["shape"], inp["attr"], inp["enum"], inp["second"]
    bytes_mode = enum == "utf8_false"
    slice_ty = "&'s [u8]" if bytes_mode else "&'s str"
    cb = "|lex| lex.slice()" if shape == "field1" else "|_| true"
    A = {
        "tok_ok": '#[token("x")]',
        "rx_ok": '#[regex("[a-c]+")]',
        "rx_cb_ok": '#[regex("[a-c]+", %s)]' % cb,
        "rx_greedy_allowed": '#[regex("q.*", allow_greedy = true)]',
        "no_attr": "",
        "two_attrs_ok": '#[token("x")]\n    #[regex("[a-c]+")]',
        "rx_nullable": '#[regex("a*")]',
        "tok_empty": '#[token("")]',
        "rx_nullable_sub": '#[regex("(?&opt)")]',
        "rx_only_look": '#[regex("$")]',
        "rx_lookstart": '#[regex("^a")]',
        "rx_wordb_start": '#[regex(r"(?-u:\\b)a")]',
        "rx_greedy": '#[regex("q.*")]',
        "rx_greedy_class": '#[regex("q[^\\n]*")]',
        "rx_undef_sub": '#[regex("(?&nope)a")]',
        "rx_uni_wordb": '#[regex(r"a\\b")]',
        "rx_nonutf8": '#[regex(b"\\xff+")]',
        "tok_nonutf8": '#[token(b"\\xff")]',
        "rx_lookahead": '#[regex("a(?=b)")]',
        "rx_backref": '#[regex(r"(a)\\1")]',
        "rx_badsyntax": '#[regex("a(")]',
        "dup_prio": '#[regex("[a-c]+", priority = 1, priority = 2)]',
        "dup_cb": '#[regex("[a-c]+", %s, callback = %s)]' % (cb, cb),
        "dup_cb_named": '#[regex("[a-c]+", callback = %s, callback = %s)]' % (cb, cb),
        "unknown_arg": '#[regex("[a-c]+", foo = 1)]',
        "bad_lit_int": "#[token(5)]",
        "bad_lit_ident": "#[token(abc)]",
        "prio_notint": '#[regex("[a-c]+", priority = "x")]',
        "cb_bad": '#[regex("[a-c]+", callback = |a, b| 1)]',
        "ignore_bad": '#[token("x", ignore(nope))]',
        "ignore_ascii": '#[token("x", ignore(ascii_case))]',
        "empty_attr": "#[token()]",
        "attr_no_parens": "#[token]",
        "greedy_notbool": '#[regex("q.*", allow_greedy = 1)]',
        "two_positional": '#[regex("[a-c]+", %s, %s)]' % (cb, cb),
    }[attr]
    E = {
        "plain": [], "extras": ["#[logos(extras = u32)]"], "error_ty": ["#[logos(error = MyErr)]"],
        "error_cb": ["#[logos(error(MyErr, callback = |_| MyErr))]"],
        "skip_ok": ['#[logos(skip " ")]'], "skip_group": ['#[logos(skip(" +", priority = 3))]'],
        "utf8_false": ["#[logos(utf8 = false)]"], "utf8_true": ["#[logos(utf8 = true)]"],
        "crate_path": ["#[logos(crate = ::logos)]"], "subpattern_ok": ['#[logos(subpattern word = "[a-z]+")]'],
        "dup_extras": ["#[logos(extras = u32)]", "#[logos(extras = u32)]"],
        "dup_error": ["#[logos(error = MyErr)]", "#[logos(error = MyErr)]"],
        "dup_utf8": ["#[logos(utf8 = true, utf8 = true)]"],
        "unknown_logos": ["#[logos(foo = 1)]"], "logos_no_parens": ["#[logos]"], "bad_utf8_val": ["#[logos(utf8 = 3)]"],
        "skip_nullable": ['#[logos(skip "a*")]'], "skip_bad_lit": ["#[logos(skip 5)]"],
        "sub_dup": ['#[logos(subpattern a = "a")]', '#[logos(subpattern a = "b")]'],
        "sub_bad_name": ['#[logos(subpattern = "a")]'],
        "sub_undef_ref": ['#[logos(subpattern a = "(?&zzz)")]'],
        "sub_nonutf8": ['#[logos(subpattern h = b"\\xfe")]'],
        "source_deprecated": ["#[logos(source = [u8])]"],
        "error_attr_variant": [], "const_generic": [],
        "dup_error_cb": ["#[logos(error(MyErr, callback = |_| MyErr, callback = |_| MyErr))]"],
    }[enum]
    generics = []
    if shape == "field1":
        generics.append("'s")
    if enum == "const_generic":
        generics.append("const N: usize")
    gen = "<%s>" % ", ".join(generics) if generics else ""
    X = {"unit": "X", "field1": "X(%s)" % slice_ty, "named": "X { a: u32 }", "tuple0": "X()", "field2": "X(u32, u32)"}[shape]
    S = {"none": "", "other_ok": '    #[token("zz")]\n    Y,\n', "same_tok": '    #[token("x")]\n    Y,\n', "overlap_same_prio": '    #[regex("[xy]")]\n    Y,\n'}[second]
    lines = ["#[derive(Logos, Debug, PartialEq, Clone)]", '#[logos(subpattern opt = "x?")]'] + E
    lines.append("pub enum D%s {" % gen)
    if A:
        lines.append("    " + A)
    lines.append("    %s," % X)
    src = "\n".join(lines) + "\n" + S
    if enum == "error_attr_variant":
        src += "    #[error]\n    Err,\n"
    if enum == "const_generic":
        src += "    #[token(\"pp\")]\n    P([u8; N]),\n" if False else ""
    src += "}\n"
    return src


def gen_strip(items, name):
    """items: list of {id, src}; returns list of {id, strip, gen, panic, errors} from the real library."""
    blob = "\n".join(json.dumps(i, sort_keys=True) for i in items) + "\n"
    key = sha(blob, harness_hash())[:16]
    d = os.path.join(workdir(), "strip-%s-%s" % (name, key))
    outp = os.path.join(d, "out.ndjson")
    if not os.path.exists(os.path.join(d, "DONE")):
        shutil.rmtree(d, ignore_errors=True)
        os.makedirs(d)
        with open(os.path.join(d, "in.ndjson"), "w") as f:
            f.write(blob)
        run([build_gen(), "strip", os.path.join(d, "in.ndjson"), outp], timeout=3600)
        open(os.path.join(d, "DONE"), "w").close()
    return [json.loads(l) for l in open(outp)]


def rustc_derive(cases, name):
    """cases: list of (id, src).  Compiles every source as a real proc-macro use in one crate
    (each in its own module) and returns {id: {"panicked": bool, "errors": [...]}}."""
    parts = ["#![allow(dead_code, unused)]\n"]
    starts = []
    line = 2
    for cid, src in cases:
        mod = "pub mod m%d {\n    use logos::Logos;\n    #[derive(Debug, Clone, PartialEq, Default)]\n    pub struct MyErr;\n" % len(starts)
        body = "".join("    " + l + "\n" for l in src.splitlines())
        text = mod + body + "}\n"
        n = text.count("\n")
        starts.append((line, line + n - 1, cid))
        line += n
        parts.append(text)
    parts.append("fn main() {}\n")
    src_all = "".join(parts)
    key = sha(src_all, harness_hash())[:16]
    crate = os.path.join(workdir(), "rustc-%s-%s" % (name, key))
    res_path = os.path.join(crate, "result.json")
    if os.path.exists(res_path):
        return json.load(open(res_path))
    shutil.rmtree(crate, ignore_errors=True)
    os.makedirs(os.path.join(crate, "src"))
    os.makedirs(os.path.join(crate, ".cargo"))
    with open(os.path.join(crate, "Cargo.toml"), "w") as f:
        f.write('[package]\nname = "rej"\nversion = "0.0.0"\nedition = "2021"\n[workspace]\n[dependencies]\nlogos = { path = "%s" }\n[profile.dev]\ndebug = false\n' % REPO)
    with open(os.path.join(crate, ".cargo", "config.toml"), "w") as f:
        f.write('[net]\noffline = true\n[build]\nrustflags = ["--cfg", "logos_verif", "--check-cfg", "cfg(logos_verif)"]\n')
    shutil.copy(os.path.join(REPO, "Cargo.lock"), os.path.join(crate, "Cargo.lock"))
    with open(os.path.join(crate, "src", "main.rs"), "w") as f:
        f.write(src_all)
    p = subprocess.run(["cargo", "build", "--offline", "--message-format=json", "--target-dir", os.path.join(WORK, "target-subj-tc")],
                       cwd=crate, env=ENV_BASE, capture_output=True, text=True)
    out = {cid: {"panicked": False, "errors": []} for cid, _ in cases}
    seen_any = False
    for l in p.stdout.splitlines():
        try:
            m = json.loads(l)
        except Exception:
            continue
        if m.get("reason") != "compiler-message":
            continue
        msg = m["message"]
        if msg.get("level") not in ("error",):
            continue
        seen_any = True
        spans = msg.get("spans") or []
        ln = None
        for sp in spans:
            if sp.get("file_name", "").endswith("main.rs"):
                ln = sp["line_start"]
                break
        if ln is None:
            continue
        for a, b, cid in starts:
            if a <= ln <= b:
                text = msg.get("message", "")
                kids = " ".join(c.get("message", "") for c in msg.get("children", []))
                if "panicked" in text or "panicked" in kids:
                    out[cid]["panicked"] = True
                out[cid]["errors"].append(text[:200])
                break
    if p.returncode != 0 and not seen_any:
        raise ToolError("rustc run failed without diagnostics:\n" + p.stderr[-3000:])
    out["_rc"] = p.returncode
    with open(res_path, "w") as f:
        json.dump(out, f)
    return out


def derive_run(tier, seed):
    t0 = time.time()
    res = run_tlc("Derive.tla", "Derive.cfg", {}, workers=4, metaname="derive")
    recs = [r[2] for r in tlc_records(res["out"]) if r[0] == "DERIVE"]
    rng = random.Random(seed + 19)
    if tier == "quick":
        # all single-feature deviations from a good baseline, plus a seeded sample of the product
        keep = []
        for r in recs:
            i = r["inp"]
            good = [i["shape"] == "unit", i["enum"] == "plain", i["second"] == "none", i["attr"] == "tok_ok"]
            if sum(good) >= 3:
                keep.append(r)
        rest = [r for r in recs if r not in keep]
        keep += rng.sample(rest, min(2500, len(rest)))
        recs_run = keep
    else:
        recs_run = recs
    items = []
    for k, r in enumerate(recs_run):
        items.append({"id": "dv%d" % k, "src": render_derive(r["inp"])})
    outs = gen_strip(items, "derive")
    findings = []
    n_acc = n_rej = 0
    for r, it, o in zip(recs_run, items, outs):
        inp = r["inp"]
        key = "%s/%s/%s/%s" % (inp["shape"], inp["attr"], inp["enum"], inp["second"])
        if o["panic"]:
            findings.append({"key": "derive:panic:" + key, "what": "the derive panicked (library entry point): %s" % o["panic"][:200], "source": it["src"], "input": inp})
            continue
        accepted = not o["errors"]
        if accepted:
            n_acc += 1
        else:
            n_rej += 1
        if accepted != (r["verdict"] == "accept"):
            findings.append({"key": "derive:verdict:" + key, "what": "specification says %s, derive %s: %s" % (r["verdict"], "accepted" if accepted else "rejected with " + str(o["errors"][:2])[:300], key),
                             "source": it["src"], "input": inp, "expected": r["verdict"]})
    # real proc macro under rustc on the stable toolchain: a sample that covers every feature value
    want = {}
    for r, it in zip(recs_run, items):
        inp = r["inp"]
        for f in ("shape", "attr", "enum", "second"):
            good = [inp["shape"] == "unit", inp["enum"] == "plain", inp["second"] == "none", inp["attr"] == "tok_ok"]
            if sum(good) >= 3:
                want.setdefault((f, inp[f]), (r, it))
    cases = {}
    for (f, v), (r, it) in want.items():
        cases[it["id"]] = (r, it)
    extra = [x for x in zip(recs_run, items) if x[1]["id"] not in cases]
    for r, it in rng.sample(extra, min(len(extra), 60 if tier == "quick" else 400)):
        cases[it["id"]] = (r, it)
    case_list = [(cid, it["src"]) for cid, (r, it) in sorted(cases.items())]
    rr = rustc_derive(case_list, "derive")
    n_rustc = 0
    for cid, (r, it) in sorted(cases.items()):
        inp = r["inp"]
        key = "%s/%s/%s/%s" % (inp["shape"], inp["attr"], inp["enum"], inp["second"])
        o = rr.get(cid)
        if o is None:
            continue
        n_rustc += 1
        if o["panicked"]:
            findings.append({"key": "rustc:panic:" + key, "what": "proc-macro derive panicked under rustc: %s" % (o["errors"][:2],), "source": it["src"], "input": inp})
        elif r["verdict"] == "accept" and o["errors"]:
            findings.append({"key": "rustc:accept-fails:" + key, "what": "accepted definition does not compile: %s" % (o["errors"][:2],), "source": it["src"], "input": inp})
        elif r["verdict"] == "reject" and not o["errors"]:
            findings.append({"key": "rustc:reject-compiles:" + key, "what": "definition the specification rejects compiles without diagnostics", "source": it["src"], "input": inp})
    samples = [{"input": r["inp"], "verdict": r["verdict"], "source": it["src"]} for r, it in list(zip(recs_run, items))[:: max(1, len(items) // 5)][:5]]
    return {"tlc": {k: res[k] for k in ("states", "distinct", "wall")}, "enumerated": len(recs), "run": len(recs_run), "accepted": n_acc, "rejected": n_rej,
            "rustc_cases": n_rustc, "findings": findings, "samples": samples, "wall": time.time() - t0}


# ------------------------------------------------------------------------------------------
# C18: Attr.tla

def render_attr_case(c, k, canonical=False):
    import corpus
    named = list(c["named"])
    if canonical:
        if c["t"] == "attr":
            named = sorted(named, key=lambda x: ["callback", "priority", "allow_greedy", "ignore"].index(x))
        else:
            named = sorted(named, key=lambda x: ["extras", "error", "subA", "subB", "utf8", "skip"].index(x))
    if c["t"] == "attr":
        pat = {"token": "fn", "regex": "[a-z]+x", "skip": "[a-z]+x"}[c["kind"]]
        a = {"kind": c["kind"], "pat": {"s": pat}, "order": named}
        if "priority" in named:
            a["prio"] = 7
        if "ignore" in named:
            a["icase"] = True
        if "allow_greedy" in named:
            a["greedy"] = True
        if c["poscb"] or "callback" in named:
            a["cb"] = "|_| ()" if c["kind"] == "skip" else "|_| true"
        if c["kind"] == "skip":
            d = corpus.mk("attr%d" % k, [corpus.tok("q")], [a])
        else:
            d = corpus.mk("attr%d" % k, [a, corpus.tok("q")])
        return d
    text = {"skip": 'skip("[ ]+", priority = 3)', "extras": "extras = u32", "error": "error = MyErr", "subA": 'subpattern a = "[0-9]"',
            "subB": 'subpattern b = "(?&a)+x"', "utf8": "utf8 = true"}
    lead = "(?&b)y" if "subB" in named else "(?&a)+" if "subA" in named else "[a-z]+"
    d = corpus.mk("items%d" % k, [corpus.rx(lead), corpus.tok("qq")])
    d["logos"] = [", ".join(text[x] for x in named)]
    return d


def attr_run(tier, seed):
    from pipeline import capture
    t0 = time.time()
    res = run_tlc("Attr.tla", "Attr.cfg", {}, workers=4, metaname="attr")
    if not res["ok"]:
        raise ToolError("Attr.tla: the tokenizer model does not refine the abstract grammar:\n" + res["out"][-3000:])
    cases = [r[2] for r in tlc_records(res["out"]) if r[0] == "ATTR"]
    defs = []
    for k, c in enumerate(cases):
        d1 = render_attr_case(c, k)
        d2 = render_attr_case(c, k, canonical=True)
        d2["id"] += "c"
        defs += [d1, d2]
    defs_path, metas, _ = capture(defs, "attr")
    tdefs = [json.loads(l) for l in open(defs_path)]
    findings = []
    n_same = 0
    for k, c in enumerate(cases):
        m1, m2 = metas[2 * k], metas[2 * k + 1]
        t1, t2 = tdefs[2 * k], tdefs[2 * k + 1]
        key = "%s:%s:%s:%s" % (c["t"], c["kind"], "poscb" if c["poscb"] else "-", ",".join(c["named"]))
        if m1["panic"] or m2["panic"]:
            findings.append({"key": "attr:panic:" + key, "what": "derive panicked: %s" % (m1["panic"] or m2["panic"]), "source": m1["src"]})
            continue
        if m1["accepted"] != m2["accepted"]:
            findings.append({"key": "attr:verdict:" + key, "what": "order %s %s but the canonical order %s: %s" % (
                list(c["named"]), "accepted" if m1["accepted"] else "rejected", "accepted" if m2["accepted"] else "rejected", (m1["errors"] or m2["errors"])[:1]),
                "source": m1["src"], "canonical_source": m2["src"]})
            continue
        if not m2["accepted"]:
            findings.append({"key": "attr:canonical-rejected:" + key, "what": "canonical order rejected: %s" % m2["errors"][:1], "source": m2["src"]})
            continue
        same = (m1["captured_leaves"] == m2["captured_leaves"] and t1["g"] == t2["g"] and t1["prio"] == t2["prio"])
        if not same:
            findings.append({"key": "attr:differs:" + key, "what": "order %s yields a different lexer than the canonical order" % list(c["named"]),
                             "source": m1["src"], "canonical_source": m2["src"], "leaves": m1["captured_leaves"], "canonical_leaves": m2["captured_leaves"]})
        else:
            n_same += 1
    samples = [{"case": c, "source": metas[2 * k]["src"]} for k, c in list(enumerate(cases))[:: max(1, len(cases) // 5)][:5]]
    return {"tlc": {k: res[k] for k in ("states", "distinct", "wall")}, "cases": len(cases), "equivalent": n_same, "findings": findings, "samples": samples, "wall": time.time() - t0}
