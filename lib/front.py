"""Engine D: the front end.  TLC enumerates programs (enum sources, attribute permutations, regex
ASTs, CLI histories) with the verdict / priority / file state the specification assigns; the harness
renders them and runs the real derive (library and rustc), and the real logos-cli."""
import json
import os
import random
import re
import shutil
import subprocess
import time

from pipeline import (ENV_BASE, HARNESS, REPO, WORK, ToolError, build_gen, harness_hash, log, repo_hash, run, run_tlc, sha,
                      tlc_records, workdir)

# ------------------------------------------------------------------------------------------
# C19: Derive.tla


def render_derive(inp):
    shape, attr, enum, second = inp["shape"], inp["attr"], inp["enum"], inp["second"]
    bytes_mode = enum == "utf8_false"
    generic_form = enum.startswith("gen_")
    slice_ty = "u32" if generic_form else "&'s [u8]" if bytes_mode else "&'s str"
    cb = ("|_| 1u32" if generic_form else "|lex| lex.slice()") if shape == "field1" else "|_| true"
    A = {
        "tok_ok": '#[token("x")]',
        "rx_ok": '#[regex("[a-c]+")]',
        "rx_cb_ok": '#[regex("[a-c]+", %s)]' % cb,
        "rx_greedy_allowed": '#[regex("q.*", allow_greedy = true)]',
        "no_attr": "",
        "two_attrs_ok": '#[token("x")]\n    #[regex("[a-c]+")]',
        "rx_nullable": '#[regex("a*")]',
        "rx_nullable_prio": '#[regex("[0-9]*", priority = 3)]',
        "rx_nullable_alt_prio": '#[regex("(ab)?c?", priority = 1)]',
        "tok_empty_prio": '#[token("", priority = 2)]',
        "tok_empty": '#[token("")]',
        "rx_nullable_sub": '#[regex("(?&opt)")]',
        "rx_only_look": '#[regex("$")]',
        "rx_lookstart": '#[regex("^a")]',
        "rx_wordb_start": '#[regex(r"(?-u:\\b)a")]',
        "rx_greedy": '#[regex("q.*")]',
        "rx_greedy_class": '#[regex("q[^\\n]*")]',
        "rx_undef_sub": '#[regex("(?&nope)a")]',
        "rx_uni_wordb": '#[regex(r"a\\b")]',
        "rx_greedy_nested": '#[regex("q(?:.+)?")]',
        "rx_greedy_capture": '#[regex("q(.)+")]',
        "rx_only_empty": '#[regex("[a&&b]*")]',
        "rx_only_empty_alt": '#[regex("y|[a&&b]?")]',
        "rx_only_empty_neg": '#[regex(r"\\P{any}*")]',
        "rx_never": '#[regex("[a&&b]q")]',
        "rx_cb_paren_tail": '#[regex("[a-c]+", %s)]' % ("|lex| (lex).slice()" if shape == "field1" and not generic_form else "|_| (1u32) + 1" if shape == "field1" else "|_| (true) && true"),
        "rx_cb_brace_tail": '#[regex("[a-c]+", %s)]' % ("|lex| { lex }.slice()" if shape == "field1" and not generic_form else "|_| { 1u32 } + 1" if shape == "field1" else "|_| { true } && true"),
        "rx_cb_bracket_tail": '#[regex("[a-c]+", %s)]' % ("|lex| [lex.slice()][0]" if shape == "field1" and not generic_form else "|_| [1u32, 2][0]" if shape == "field1" else "|_| [true, false][0]"),
        "rx_cb_bracket_only": '#[regex("[a-c]+", %s)]' % ("|lex| lex.slice()" if shape == "field1" and not generic_form else "|_| 1u32" if shape == "field1" else "|_| [true, true].len() == 2"),
        # the field type of these is FIELD_TY[attr]; unit variants return bool / ()
        "rx_cb_tuple_only": '#[regex("[a-c]+", %s)]' % ("|lex| (lex.slice(), 1u8)" if shape == "field1" and not generic_form else "|_| (1u32, 1u8)" if shape == "field1" else "|_| (true)"),
        "rx_cb_unit_parens": '#[regex("[a-c]+", %s)]' % ("|_| (7u32)" if shape == "field1" else "|_| ()"),
        "rx_cb_match_only": '#[regex("[a-c]+", %s)]' % ("|lex| match lex.slice().len() { 1 => 1u32, _ => 2u32 }" if shape == "field1" else "|lex| match lex.slice().len() { 1 => true, _ => false }"),
        "rx_cb_match_tail": '#[regex("[a-c]+", %s)]' % ("|lex| match lex.slice().len() { 1 => 1u32, _ => 2u32 } + 10" if shape == "field1" else "|lex| match lex.slice().len() { 1 => true, _ => false } || true"),
        "rx_cb_if_only": '#[regex("[a-c]+", %s)]' % ("|lex| if lex.slice().len() == 1 { 1u32 } else { 2u32 }" if shape == "field1" else "|lex| if lex.slice().len() == 1 { true } else { false }"),
        "rx_cb_if_tail": '#[regex("[a-c]+", %s)]' % ("|lex| if lex.slice().len() == 1 { 1u32 } else { 2u32 } * 3" if shape == "field1" else "|lex| if lex.slice().len() == 1 { true } else { false } == true"),
        "rx_cb_match_method": '#[regex("[a-c]+", %s)]' % ("|lex| match lex.slice().len() { 1 => 1u32, _ => 2u32 }.pow(2)" if shape == "field1" else "|lex| match lex.slice().len() { 1 => 1u32, _ => 2u32 }.is_power_of_two()"),
        "rx_cb_unsafe_only": '#[regex("[a-c]+", %s)]' % ("|_| unsafe { 1u32 }" if shape == "field1" else "|_| unsafe { true }"),
        "rx_cb_neg": '#[regex("[a-c]+", %s)]' % ("|lex| -(lex.slice().len() as i64)" if shape == "field1" else "|lex| !lex.slice().is_empty()"),
        "rx_cb_ref_tuple": '#[regex("[a-c]+", %s)]' % ("|_| &(1u8, 2u8)" if shape == "field1" else "|_| *&true"),
        "rx_cb_closure_call": '#[regex("[a-c]+", %s)]' % ("|lex| (|n: usize| n as u32 + 1)(lex.slice().len())" if shape == "field1" else "|lex| (|n: usize| n > 0)(lex.slice().len())"),
        "rx_cb_ret_type": '#[regex("[a-c]+", %s)]' % ("|lex| -> usize { lex.slice().len() }" if shape == "field1" else "|_| -> bool { true }"),
        "cb_garbage_label": '#[token("x", :: [ ? X ])]',
        "rx_nonutf8": '#[regex(b"\\xff+")]',
        "tok_b80_icase": '#[token(b"\\x80", ignore(case))]',
        "tok_b7f80_icase": '#[token(b"k\\x7f\\x80\\x81", ignore(case))]',
        "rx_b80": '#[regex(b"\\x80+")]',
        "tok_nonutf8": '#[token(b"\\xff")]',
        "rx_lookahead": '#[regex("a(?=b)")]',
        "rx_backref": '#[regex(r"(a)\\1")]',
        "rx_badsyntax": '#[regex("a(")]',
        "dup_prio": '#[regex("[a-c]+", priority = 1, priority = 2)]',
        "dup_cb": '#[regex("[a-c]+", %s, callback = %s)]' % (cb, cb),
        "dup_cb_named": '#[regex("[a-c]+", callback = %s, callback = %s)]' % (cb, cb),
        "unknown_arg": '#[regex("[a-c]+", foo = 1)]',
        "bad_lit_int": "#[token(5)]",
        "bad_lit_ident": "#[token(abc)]",
        "prio_notint": '#[regex("[a-c]+", priority = "x")]',
        "cb_bad": '#[regex("[a-c]+", callback = |a, b| 1)]',
        "ignore_bad": '#[token("x", ignore(nope))]',
        "ignore_ascii": '#[token("x", ignore(ascii_case))]',
        "empty_attr": "#[token()]",
        "attr_no_parens": "#[token]",
        "greedy_notbool": '#[regex("q.*", allow_greedy = 1)]',
        "two_positional": '#[regex("[a-c]+", %s, %s)]' % (cb, cb),
    }
    LONG = "\u043f\u0440\u0438\u0432\u0435\u0442\u4e16\u754c\u0437\u0434\u0440\u0430\u0432\u0441\u0442\u0432\u0443\u0439\u0442\u0435\u4f60\u597d\u0434\u043e\u0431\u0440\u044b\u0439\U0001F600\u0432\u0435\u0447\u0435\u0440\u0441\u043f\u043e\u043a\u043e\u0439\u043d\u043e\u0439"
    for pad in range(4):
        A["rx_nullable_long%d" % pad] = '#[regex("(%s%s|q)*")]' % ("a" * pad, LONG)
        A["rx_conflict_long%d" % pad] = '#[token("%s%s", priority = 5)]\n    #[regex("%s%s|zz", priority = 5)]' % ("a" * pad, LONG, "a" * pad, LONG)
    A = A[attr]
    E = {
        "plain": [], "extras": ["#[logos(extras = u32)]"], "error_ty": ["#[logos(error = MyErr)]"],
        "error_cb": ["#[logos(error(MyErr, callback = |_| MyErr))]"],
        "skip_ok": ['#[logos(skip " ")]'], "skip_group": ['#[logos(skip(" +", priority = 3))]'],
        "utf8_false": ["#[logos(utf8 = false)]"], "utf8_true": ["#[logos(utf8 = true)]"],
        "crate_path": ["#[logos(crate = ::logos)]"], "subpattern_ok": ['#[logos(subpattern word = "[a-z]+")]'],
        "dup_extras": ["#[logos(extras = u32)]", "#[logos(extras = u32)]"],
        "dup_error": ["#[logos(error = MyErr)]", "#[logos(error = MyErr)]"],
        "dup_utf8": ["#[logos(utf8 = true, utf8 = true)]"],
        "unknown_logos": ["#[logos(foo = 1)]"], "logos_no_parens": ["#[logos]"], "bad_utf8_val": ["#[logos(utf8 = 3)]"],
        "skip_nullable": ['#[logos(skip "a*")]'], "skip_bad_lit": ["#[logos(skip 5)]"],
        "skip_nullable_prio": ['#[logos(skip("[ \\t]*", priority = 5))]'],
        "skip_nonutf8": ['#[logos(skip b"\\xc3")]'], "skip_nonutf8_group": ['#[logos(skip(b"\\xff+", priority = 3))]'],
        "skip_greedy": ['#[logos(skip "#.*")]'], "skip_undef_sub": ['#[logos(skip "(?&nope)+")]'], "skip_lookstart": ['#[logos(skip "^#")]'],
        "sub_dup": ['#[logos(subpattern a = "a")]', '#[logos(subpattern a = "b")]'],
        "sub_bad_name": ['#[logos(subpattern = "a")]'],
        "sub_undef_ref": ['#[logos(subpattern a = "(?&zzz)")]'],
        "sub_nonutf8": ['#[logos(subpattern h = b"\\xfe")]'],
        "source_deprecated": ["#[logos(source = [u8])]"],
        "error_attr_variant": [], "const_generic": [],
        "skip_lit_tail": ['#[logos(skip " " priority = 3)]'], "skip_lit_tail_lit": ['#[logos(skip " " "x")]'],
        "sub_unbalanced": ['#[logos(subpattern ub = "a)|(b")]'], "sub_flag_cut": ['#[logos(subpattern ub = "a)(?i")]'],
        "dup_error_cb": ["#[logos(error(MyErr, callback = |_| MyErr, callback = |_| MyErr))]"],
        "extras_empty": ["#[logos(extras = )]"], "error_empty": ["#[logos(error = )]"], "crate_literal": ["#[logos(crate = 3)]"],
        "dup_crate": ["#[logos(crate = ::logos, crate = logos)]"],
        "gen_type_chain": ["#[logos(type T = Vec<U>, type U = u32)]"], "gen_type_self": ["#[logos(type T = Vec<T>)]"],
        "error_cb_tuple": ["#[logos(error((usize, usize), callback = |lex| (lex.span().start, lex.span().end)))]"],
        "error_cb_match_tail": ["#[logos(error(usize, callback = |lex| match lex.span().start { 0 => 1usize, _ => 2usize } + 10))]"],
        "gen_lt": [], "gen_two_lt_attr": ["#[logos(lifetime = 'a)]"], "gen_lt_none": ["#[logos(lifetime = none)]"],
        "gen_type_ok": ["#[logos(type T = u32)]"], "gen_type_lt_order": ["#[logos(type T = &'a str, lifetime = 'a)]"],
        "gen_two_lt_no_attr": [], "gen_lt_undeclared": ["#[logos(lifetime = 'z)]"], "gen_lt_dup": ["#[logos(lifetime = 'a, lifetime = 'a)]"],
        "gen_type_missing": [], "gen_type_undeclared": ["#[logos(type U = u32)]"], "gen_type_dup": ["#[logos(type T = u32, type T = u32)]"],
    }[enum]
    GEN = {"gen_lt": ("<'a>", "&'a str", None), "gen_two_lt_attr": ("<'a, 'b>", "&'a str", "&'b u8"), "gen_lt_none": ("<'a>", None, "&'a u8"),
           "gen_type_ok": ("<T>", "T:|_| 1u32", None), "gen_type_lt_order": ("<'a, T>", "T:|lex| lex.slice()", "&'a u8"),
           "gen_two_lt_no_attr": ("<'a, 'b>", "&'a str", "&'b u8"), "gen_lt_undeclared": ("<'a>", "&'a str", None), "gen_lt_dup": ("<'a>", "&'a str", None),
           "gen_type_chain": ("<T, U>", "T:|_| Vec::new()", None), "gen_type_self": ("<T>", "T:|_| Vec::new()", None),
           "gen_type_missing": ("<T>", "T:|_| 1u32", None), "gen_type_undeclared": ("", None, None), "gen_type_dup": ("<T>", "T:|_| 1u32", None)}
    FIELD_TY = {"rx_cb_tuple_only": "(%s, u8)" % slice_ty, "rx_cb_unit_parens": "u32", "rx_cb_match_only": "u32", "rx_cb_match_tail": "u32", "rx_cb_if_only": "u32",
                "rx_cb_if_tail": "u32", "rx_cb_match_method": "u32", "rx_cb_unsafe_only": "u32", "rx_cb_neg": "i64", "rx_cb_ref_tuple": "&'static (u8, u8)", "rx_cb_closure_call": "u32"}
    if attr in FIELD_TY:
        slice_ty = FIELD_TY[attr]
    generics = []
    if shape == "field1" and not generic_form and "'s" in slice_ty:
        generics.append("'s")
    if enum == "const_generic":
        generics.append("const N: usize")
    gen = "<%s>" % ", ".join(generics) if generics else ""
    extra_variants = ""
    if generic_form:
        gen, slice_field, other_field = GEN[enum]
        if slice_field and slice_field.startswith("T:"):
            extra_variants += '    #[regex("[0-9]+", %s)]\n    Num(T),\n' % slice_field[2:]
        elif slice_field:
            extra_variants += '    #[regex("[0-9]+")]\n    Num(%s),\n' % slice_field
        if other_field:
            extra_variants += '    #[regex("%%+", |_| &0u8)]\n    Pct(%s),\n' % other_field
    X = {"unit": "X", "field1": "X(%s)" % slice_ty, "named": "X { a: u32 }", "tuple0": "X()", "field2": "X(u32, u32)"}[shape]
    S = {"none": "", "other_ok": '    #[token("zz")]\n    Y,\n', "same_tok": '    #[token("x")]\n    Y,\n', "overlap_same_prio": '    #[regex("[xy]")]\n    Y,\n'}[second]
    lines = ["#[derive(Logos, Debug, PartialEq, Clone)]", '#[logos(subpattern opt = "x?")]'] + E
    lines.append("pub enum D%s {" % gen)
    if A:
        lines.append("    " + A)
    lines.append("    %s," % X)
    src = "\n".join(lines) + "\n" + S + extra_variants
    if enum == "error_attr_variant":
        src += "    #[error]\n    Err,\n"
    if enum == "const_generic":
        src += "    #[token(\"pp\")]\n    P([u8; N]),\n" if False else ""
    src += "}\n"
    return src


def gen_strip(items, name):
    """items: list of {id, src}; returns list of {id, strip, gen, panic, errors} from the real library."""
    blob = "\n".join(json.dumps(i, sort_keys=True) for i in items) + "\n"
    key = sha(blob, harness_hash())[:16]
    d = os.path.join(workdir(), "strip-%s-%s" % (name, key))
    outp = os.path.join(d, "out.ndjson")
    if not os.path.exists(os.path.join(d, "DONE")):
        shutil.rmtree(d, ignore_errors=True)
        os.makedirs(d)
        with open(os.path.join(d, "in.ndjson"), "w") as f:
            f.write(blob)
        run([build_gen(), "strip", os.path.join(d, "in.ndjson"), outp], timeout=3600)
        open(os.path.join(d, "DONE"), "w").close()
    return [json.loads(l) for l in open(outp)]


def rustc_derive(cases, name):
    """cases: list of (id, src).  Compiles every source as a real proc-macro use in one crate
    (each in its own module) and returns {id: {"panicked": bool, "errors": [...]}}."""
    parts = ["#![allow(dead_code, unused)]\n"]
    starts = []
    line = 2
    for cid, src in cases:
        mod = "pub mod m%d {\n    use logos::Logos;\n    #[derive(Debug, Clone, PartialEq, Default)]\n    pub struct MyErr;\n" % len(starts)
        body = "".join("    " + l + "\n" for l in src.splitlines())
        text = mod + body + "}\n"
        n = text.count("\n")
        starts.append((line, line + n - 1, cid))
        line += n
        parts.append(text)
    parts.append("fn main() {}\n")
    src_all = "".join(parts)
    key = sha(src_all, harness_hash())[:16]
    crate = os.path.join(workdir(), "rustc-%s-%s" % (name, key))
    res_path = os.path.join(crate, "result.json")
    if os.path.exists(res_path):
        return json.load(open(res_path))
    shutil.rmtree(crate, ignore_errors=True)
    os.makedirs(os.path.join(crate, "src"))
    os.makedirs(os.path.join(crate, ".cargo"))
    with open(os.path.join(crate, "Cargo.toml"), "w") as f:
        f.write('[package]\nname = "rej"\nversion = "0.0.0"\nedition = "2021"\n[workspace]\n[dependencies]\nlogos = { path = "%s" }\n[profile.dev]\ndebug = false\n' % REPO)
    with open(os.path.join(crate, ".cargo", "config.toml"), "w") as f:
        f.write('[net]\noffline = true\n[build]\nrustflags = ["--cfg", "logos_verif", "--check-cfg", "cfg(logos_verif)"]\n')
    shutil.copy(os.path.join(REPO, "Cargo.lock"), os.path.join(crate, "Cargo.lock"))
    with open(os.path.join(crate, "src", "main.rs"), "w") as f:
        f.write(src_all)
    from pipeline import alt_tag
    p = subprocess.run(["cargo", "build", "--offline", "--message-format=json", "--target-dir", os.path.join(WORK, "target-subj-tc" + alt_tag())],
                       cwd=crate, env=ENV_BASE, capture_output=True, text=True)
    out = {cid: {"panicked": False, "errors": []} for cid, _ in cases}
    seen_any = False
    for l in p.stdout.splitlines():
        try:
            m = json.loads(l)
        except Exception:
            continue
        if m.get("reason") != "compiler-message":
            continue
        msg = m["message"]
        if msg.get("level") not in ("error",):
            continue
        seen_any = True
        spans = msg.get("spans") or []
        ln = None
        for sp in spans:
            if sp.get("file_name", "").endswith("main.rs"):
                ln = sp["line_start"]
                break
        if ln is None:
            continue
        for a, b, cid in starts:
            if a <= ln <= b:
                text = msg.get("message", "")
                kids = " ".join(c.get("message", "") for c in msg.get("children", []))
                if "panicked" in text or "panicked" in kids:
                    out[cid]["panicked"] = True
                out[cid]["errors"].append(text[:200])
                break
    if p.returncode != 0 and not seen_any:
        raise ToolError("rustc run failed without diagnostics:\n" + p.stderr[-3000:])
    out["_rc"] = p.returncode
    with open(res_path, "w") as f:
        json.dump(out, f)
    return out


def isolated_strip(src):
    """generate() on one source in its own process: {"panic", "errors"} or {"died": why}"""
    import tempfile
    gen = build_gen()
    with tempfile.TemporaryDirectory(dir=workdir()) as d:
        inp, outp = os.path.join(d, "in.ndjson"), os.path.join(d, "out.ndjson")
        with open(inp, "w") as f:
            f.write(json.dumps({"id": "iso", "src": src}) + "\n")
        try:
            p = subprocess.run([gen, "strip", inp, outp], capture_output=True, text=True, timeout=300)
        except subprocess.TimeoutExpired:
            return {"died": "no result after 300 s"}
        if os.path.exists(outp) and os.path.getsize(outp):
            return json.loads(open(outp).readline())
        return {"died": "exit %s: %s" % (p.returncode, p.stderr.strip()[-200:])}


def derive_run(tier, seed):
    t0 = time.time()
    res = run_tlc("Derive.tla", "Derive.cfg", {}, workers=4, metaname="derive")
    recs = [r[2] for r in tlc_records(res) if r[0] == "DERIVE"]
    rng = random.Random(seed + 19)
    if tier == "quick":
        # all single-feature deviations from a good baseline, plus a seeded sample of the product
        keep = []
        for r in recs:
            i = r["inp"]
            good = [i["shape"] == "unit", i["enum"] == "plain", i["second"] == "none", i["attr"] == "tok_ok"]
            if sum(good) >= 3:
                keep.append(r)
        rest = [r for r in recs if r not in keep]
        keep += rng.sample(rest, min(2500, len(rest)))
        recs_run = keep
    else:
        recs_run = recs
    # inputs on which the unrepaired derive does not return (unbounded recursion: the process dies of a stack overflow,
    # which catch_unwind cannot turn into data) are run one process per case; a seeded sample of them is enough
    crashy = [r for r in recs_run if r["inp"]["enum"] == "gen_type_self"]
    recs_run = [r for r in recs_run if r["inp"]["enum"] != "gen_type_self"]
    crashy = [r for r in crashy if r["inp"]["second"] == "none" and r["inp"]["attr"] in ("tok_ok", "rx_cb_ok", "no_attr")][:6]
    items = []
    for k, r in enumerate(recs_run):
        items.append({"id": "dv%d" % k, "src": render_derive(r["inp"])})
    outs = gen_strip(items, "derive")
    findings = []
    n_acc = n_rej = 0
    for r in crashy:
        inp = r["inp"]
        key = "%s/%s/%s/%s" % (inp["shape"], inp["attr"], inp["enum"], inp["second"])
        o = isolated_strip(render_derive(inp))
        if o.get("died"):
            findings.append({"key": "derive:crash:" + key, "what": "the derive did not return (library entry point, own process): %s" % o["died"][:200], "source": render_derive(inp), "input": inp})
        elif o["panic"]:
            findings.append({"key": "derive:panic:" + key, "what": "the derive panicked (library entry point): %s" % o["panic"][:200], "source": render_derive(inp), "input": inp})
        elif (not o["errors"]) != (r["verdict"] == "accept"):
            findings.append({"key": "derive:verdict:" + key, "what": "specification says %s, derive %s: %s" % (r["verdict"], "accepted" if not o["errors"] else "rejected", key), "source": render_derive(inp), "input": inp})
        else:
            n_rej += 1
    for r, it, o in zip(recs_run, items, outs):
        inp = r["inp"]
        key = "%s/%s/%s/%s" % (inp["shape"], inp["attr"], inp["enum"], inp["second"])
        if o["panic"]:
            findings.append({"key": "derive:panic:" + key, "what": "the derive panicked (library entry point): %s" % o["panic"][:200], "source": it["src"], "input": inp})
            continue
        accepted = not o["errors"]
        if accepted:
            n_acc += 1
        else:
            n_rej += 1
        if accepted != (r["verdict"] == "accept"):
            findings.append({"key": "derive:verdict:" + key, "what": "specification says %s, derive %s: %s" % (r["verdict"], "accepted" if accepted else "rejected with " + str(o["errors"][:2])[:300], key),
                             "source": it["src"], "input": inp, "expected": r["verdict"]})
    # real proc macro under rustc on the stable toolchain: a sample that covers every feature value
    want = {}
    for r, it in zip(recs_run, items):
        inp = r["inp"]
        for f in ("shape", "attr", "enum", "second"):
            good = [inp["shape"] == "unit", inp["enum"] == "plain", inp["second"] == "none", inp["attr"] == "tok_ok"]
            if sum(good) >= 3:
                want.setdefault((f, inp[f]), (r, it))
    cases = {}
    for (f, v), (r, it) in want.items():
        cases[it["id"]] = (r, it)
    extra = [x for x in zip(recs_run, items) if x[1]["id"] not in cases]
    for r, it in rng.sample(extra, min(len(extra), 60 if tier == "quick" else 400)):
        cases[it["id"]] = (r, it)
    case_list = [(cid, it["src"]) for cid, (r, it) in sorted(cases.items())]
    rr = rustc_derive(case_list, "derive")
    n_rustc = 0
    for cid, (r, it) in sorted(cases.items()):
        inp = r["inp"]
        key = "%s/%s/%s/%s" % (inp["shape"], inp["attr"], inp["enum"], inp["second"])
        o = rr.get(cid)
        if o is None:
            continue
        n_rustc += 1
        if o["panicked"]:
            findings.append({"key": "rustc:panic:" + key, "what": "proc-macro derive panicked under rustc: %s" % (o["errors"][:2],), "source": it["src"], "input": inp})
        elif r["verdict"] == "accept" and o["errors"] and not (inp["shape"] == "field1" and inp["enum"].startswith("gen_")):
            # (in the generic forms the rendered field type u32 only fits attributes with a callback;
            #  a type error in the user's own field is not the derive's)
            findings.append({"key": "rustc:accept-fails:" + key, "what": "accepted definition does not compile: %s" % (o["errors"][:2],), "source": it["src"], "input": inp})
        elif r["verdict"] == "reject" and not o["errors"]:
            findings.append({"key": "rustc:reject-compiles:" + key, "what": "definition the specification rejects compiles without diagnostics", "source": it["src"], "input": inp})
    samples = [{"input": r["inp"], "verdict": r["verdict"], "source": it["src"]} for r, it in list(zip(recs_run, items))[:: max(1, len(items) // 5)][:5]]
    return {"tlc": {k: res[k] for k in ("states", "distinct", "wall")}, "enumerated": len(recs), "run": len(recs_run), "accepted": n_acc, "rejected": n_rej,
            "rustc_cases": n_rustc, "findings": findings, "samples": samples, "wall": time.time() - t0}


# ------------------------------------------------------------------------------------------
# C19: astronomically large repetition counts (priority arithmetic), one process each under a memory limit

HUGE = {
    "product": "((a{4294967295}){4294967295}){4294967295}b",
    "product2": "(?:[ab]{4294967295}){4294967295}",
    "sum": "(a{4294967295}){1073741824}(a{4294967295}){1073741824}(a{4294967295}){1073741824}",
    "skip_product": "((#{4294967295}){4294967295}){4294967295}",
}


def huge_run():
    """The derive on counted repetitions whose default priority exceeds the machine word.  Building the
    automaton for such a pattern needs more memory than any machine has, so each case runs in its own
    process under an address-space limit: a panic before that point is a finding, running into the limit
    is recorded as such (no verdict on termination for these inputs)."""
    import resource
    gen = build_gen()
    d = os.path.join(workdir(), "huge-%s" % sha(json.dumps(HUGE, sort_keys=True), harness_hash())[:12])
    res_path = os.path.join(d, "result.json")
    if os.path.exists(res_path):
        return json.load(open(res_path))
    shutil.rmtree(d, ignore_errors=True)
    os.makedirs(d)
    out = {"cases": [], "findings": []}

    def limit():
        resource.setrlimit(resource.RLIMIT_AS, (3 << 30, 3 << 30))
        resource.setrlimit(resource.RLIMIT_CORE, (0, 0))

    for name, pat in sorted(HUGE.items()):
        if name.startswith("skip"):
            src = '#[derive(Logos)]\n#[logos(skip "%s")]\npub enum D {\n    #[token("x")]\n    X,\n}\n' % pat
        else:
            src = '#[derive(Logos)]\npub enum D {\n    #[regex("%s")]\n    X,\n    #[token("y")]\n    Y,\n}\n' % pat
        inp = os.path.join(d, name + ".in.ndjson")
        outp = os.path.join(d, name + ".out.ndjson")
        with open(inp, "w") as f:
            f.write(json.dumps({"id": name, "src": src}) + "\n")
        try:
            p = subprocess.run([gen, "strip", inp, outp], capture_output=True, text=True, timeout=600, preexec_fn=limit)
            rc, err = p.returncode, p.stderr[-400:]
        except subprocess.TimeoutExpired:
            rc, err = None, "timeout"
        o = None
        if os.path.exists(outp) and os.path.getsize(outp):
            o = json.loads(open(outp).readline())
        if o is not None and o.get("panic"):
            outcome = "panic"
            out["findings"].append({"key": "huge:panic:" + name, "what": "the derive panicked on a huge repetition count (%s): %s" % (pat, o["panic"][:200]), "source": src})
        elif o is not None:
            outcome = "diagnostic" if o["errors"] else "accepted"
        elif rc is not None and rc != 0 and ("memory allocation" in err or "capacity overflow" in err or rc < 0):
            outcome = "memory limit reached while building the automaton"
        else:
            outcome = "no result (rc=%s): %s" % (rc, err[-200:])
            out["findings"].append({"key": "huge:noresult:" + name, "what": "the derive neither finished nor hit the memory limit on %s: %s" % (pat, outcome), "source": src})
        out["cases"].append({"name": name, "pattern": pat, "outcome": outcome})
    with open(res_path, "w") as f:
        json.dump(out, f)
    return out


# ------------------------------------------------------------------------------------------
# C18: Attr.tla

def render_attr_case(c, k, canonical=False):
    import corpus
    named = list(c["named"])
    if canonical:
        if c["t"] == "attr":
            named = sorted(named, key=lambda x: ["callback", "priority", "allow_greedy", "ignore"].index(x))
        else:
            named = sorted(named, key=lambda x: ["crate", "extras", "error", "errorcb", "subA", "subB", "utf8", "utf8f", "lifetime", "ltnone", "type", "skip", "skipb", "export_dir"].index(x))
    if c["t"] == "attr":
        pat = {"token": "fn", "regex": "[a-z]+x", "skip": "[a-z]+x"}[c["kind"]]
        a = {"kind": c["kind"], "pat": {"s": pat}, "order": named}
        if "priority" in named:
            a["prio"] = 7
        if "ignore" in named:
            a["icase"] = True
        if "allow_greedy" in named:
            a["greedy"] = True
        if c["poscb"] or "callback" in named:
            unit = c["kind"] == "skip"
            a["cb"] = {
                "simple": "|_| ()" if unit else "|_| true",
                "lt": "|lex| { let _ = lex.slice().len() < 3; }" if unit else "|lex| lex.slice().len() < 3",
                "shift": "|lex| { let _ = 1usize << lex.slice().len(); }" if unit else "|lex| 1usize << lex.slice().len() > 4",
                "generic": "|lex| { let _ = lex.slice().parse::<u8>(); }" if unit else "|lex| lex.slice().parse::<u8>().is_ok()",
                "tuple": "|lex| { let _ = (lex.slice(), 1); }" if unit else "|lex| (lex.slice().len(), 2).0 > [0, 1][1]",
                "block": "|lex| { let v = [1, 2]; let _ = v.len() > lex.slice().len(); }" if unit else "|lex| { let v = [1, 2]; v.len() > lex.slice().len() }",
                "bitor": "|lex| drop(lex.slice().is_empty()) == () | false" if unit else "|lex| lex.slice().is_empty() | true",
            }[c["cbv"]]
            if c["cbv"] == "lt" and unit is False and not c["poscb"] and named and named[-1] != "callback":
                pass
        if c["kind"] == "skip":
            d = corpus.mk("attr%d" % k, [corpus.tok("q")], [a])
        else:
            d = corpus.mk("attr%d" % k, [a, corpus.tok("q")])
        return d
    text = {"skip": 'skip("[ ]+", priority = 3)', "extras": "extras = u32", "error": "error = MyErr", "subA": 'subpattern a = "[0-9]"',
            "subB": 'subpattern b = "(?&a)+x"', "utf8": "utf8 = true", "lifetime": "lifetime = 'a", "ltnone": "lifetime = none",
            "type": "type T = &'static str" if "ltnone" in named else "type T = &'a str",
            "errorcb": "error(MyErr, callback = |_lex| MyErr::default())", "utf8f": "utf8 = false", "skipb": 'skip(b"\\xff+")',
            "crate": "crate = ::logos", "export_dir": 'export_dir = "%s"' % os.path.join(WORK, "export-tmp")}
    lead = "(?&b)y" if "subB" in named else "(?&a)+" if "subA" in named else "[a-z]+"
    d = corpus.mk("items%d" % k, [corpus.rx(lead), corpus.tok("qq")])
    d["logos"] = [", ".join(text[x] for x in named)]
    if "ltnone" in named:
        # no lifetime parameter: the source lifetime is a fresh one
        d["enum_generics"] = "<T>" if "type" in named else ""
        if "type" in named:
            d["vars"][0]["field"] = "T"
    elif "type" in named or "lifetime" in named:
        # generic enum: the source lifetime and the concrete type of T come from the items
        d["enum_generics"] = "<'a, T>" if "type" in named else "<'a>"
        d["vars"][0]["field"] = "T" if "type" in named else "&'a str"
    return d


def attr_run(tier, seed):
    from pipeline import capture
    t0 = time.time()
    res = run_tlc("Attr.tla", "Attr.cfg", {}, workers=4, metaname="attr")
    if not res["ok"]:
        raise ToolError("Attr.tla: the tokenizer model does not refine the abstract grammar:\n" + res["out"][-3000:])
    cases = [r[2] for r in tlc_records(res) if r[0] == "ATTR"]
    defs = []
    for k, c in enumerate(cases):
        d1 = render_attr_case(c, k)
        d2 = render_attr_case(c, k, canonical=True)
        d2["id"] += "c"
        defs += [d1, d2]
    defs_path, metas, _ = capture(defs, "attr")
    tdefs = [json.loads(l) for l in open(defs_path)]
    findings = []
    n_same = 0
    for k, c in enumerate(cases):
        m1, m2 = metas[2 * k], metas[2 * k + 1]
        t1, t2 = tdefs[2 * k], tdefs[2 * k + 1]
        key = "%s:%s:%s:%s:%s" % (c["t"], c["kind"], "poscb" if c["poscb"] else "-", ",".join(c["named"]), c.get("cbv", "none"))
        if m1["panic"] or m2["panic"]:
            findings.append({"key": "attr:panic:" + key, "what": "derive panicked: %s" % (m1["panic"] or m2["panic"]), "source": m1["src"]})
            continue
        if m1["accepted"] != m2["accepted"]:
            findings.append({"key": "attr:verdict:" + key, "what": "order %s %s but the canonical order %s: %s" % (
                list(c["named"]), "accepted" if m1["accepted"] else "rejected", "accepted" if m2["accepted"] else "rejected", (m1["errors"] or m2["errors"])[:1]),
                "source": m1["src"], "canonical_source": m2["src"]})
            continue
        if not m2["accepted"]:
            findings.append({"key": "attr:canonical-rejected:" + key, "what": "canonical order rejected: %s" % m2["errors"][:1], "source": m2["src"]})
            continue
        same = (m1["captured_leaves"] == m2["captured_leaves"] and t1["g"] == t2["g"] and t1["prio"] == t2["prio"]
                and m1["out_hash_norm"] == m2["out_hash_norm"])
        if not same:
            findings.append({"key": "attr:differs:" + key, "what": "order %s yields a different lexer than the canonical order" % list(c["named"]),
                             "source": m1["src"], "canonical_source": m2["src"], "leaves": m1["captured_leaves"], "canonical_leaves": m2["captured_leaves"]})
        else:
            n_same += 1
    samples = [{"case": c, "source": metas[2 * k]["src"]} for k, c in list(enumerate(cases))[:: max(1, len(cases) // 5)][:5]]
    return {"tlc": {k: res[k] for k in ("states", "distinct", "wall")}, "cases": len(cases), "equivalent": n_same, "findings": findings, "samples": samples, "wall": time.time() - t0}


# ------------------------------------------------------------------------------------------
# C17: Cli.tla

_cli_bin = None


def build_cli():
    global _cli_bin
    if _cli_bin is None:
        from pipeline import alt_tag
        tdir = os.path.join(WORK, "target-cli" + alt_tag())
        run(["cargo", "build", "-p", "logos-cli", "--offline", "--target-dir", tdir], cwd=REPO, timeout=3600)
        _cli_bin = os.path.join(tdir, "debug", "logos-cli")
    return _cli_bin


def render_cli_source(s, stripped=False, keep=None):
    def derive(lst, trailing):
        return "#[derive(%s%s)]" % ((", " if stripped or s.get("sep", "spaced") == "spaced" else ",").join(lst), "," if trailing and lst else "")
    lines = []
    if s["extras"] == "doc_repr_before":
        lines += ["/// The tokens", "#[repr(u8)]"]
    if stripped:
        lines.append(derive(keep[0], s["trailing"] and len(keep[0]) == len(s["first"])))
        if s["second"]:
            lines.append(derive(keep[1], False))
    else:
        lines.append(derive(s["first"], s["trailing"]))
        if s["second"]:
            lines.append(derive(s["second"], False))
    if s["extras"] == "cfg_attr_after":
        lines.append("#[cfg_attr(test, derive(Hash))]")
    if s["nlogos"] >= 1 and not stripped:
        lines.append('#[logos(skip " ")]')
    if s["extras"] == "allow_between":
        lines.append("#[allow(dead_code)]")
    if s["nlogos"] >= 2 and not stripped:
        lines.append("#[logos(extras = u32)]")
    lines.append("pub enum Tok {")
    body = [("    /// doc on a variant", True), ('    #[token("a")]', False), ("    A,", True),
            ("    #[cfg(test)]", True), ('    #[regex("[0-9]+")]', False), ('    #[regex("x+")]', False), ("    B,", True),
            ('    #[token("c", |_| 1u32)]', False), ("    C(#[allow(unused)] u32),", True),
            ('    #[doc = "no logos attribute"]', True), ("    D,", True),
            ('    #[token(r"m\nn")]', False), ('    #[token("o\np", priority = 9)]', False), ("    M,", True)]
    for text, keepit in body:
        if keepit or not stripped:
            lines.append(text)
    lines.append("}")
    return "\n".join(lines) + "\n"


ATTR_TEXT = {"serde": '#[serde(rename = "x")]', "token_kind": "#[token_kind(1)]", "logos_ext": "#[logos_ext::skip]"}


def render_cli_item(s, vattrs, eattrs):
    """Part 1b of Cli.tla: the enum item with the given attributes of the enum and of variant V1 (the stripped form is the
    same rendering with the kept attributes only)."""
    cb = {"unit": "", "disc": "", "tuple": ", |_| 1u32", "tuple_attr": ", |_| 1u32"}[s["field"]]
    lines = ["#[derive(Debug, Logos)]" if "logos" in eattrs else "#[derive(Debug)]"]
    if s["field"] == "disc":
        lines.append("#[repr(u8)]")
    first = True
    for a in eattrs:
        if a == "logos":
            lines.append('#[logos(skip " ")]' if first else "#[logos(extras = u32)]")
            first = False
        else:
            lines.append(ATTR_TEXT[a].replace("#[serde(rename", "#[serde(tag"))
    stripped = "logos" not in eattrs
    if s["gen"] in ("ty", "ty_where") and not stripped:
        lines.append("#[logos(type T = u32)]")
    vis = {"pub": "pub ", "priv": "", "crate": "pub(crate) "}[s["vis"]]
    gen = {"none": "", "lt": "<'s>", "ty": "<T: Default>", "ty_where": "<T>"}[s["gen"]]
    where = " where T: Default" if s["gen"] == "ty_where" else ""
    lines.append("%senum Tok%s%s {" % (vis, gen, where))
    k = 0
    for a in vattrs:
        if a == "token":
            k += 1
            lines.append('    #[token("k%d"%s)]' % (k, cb))
        elif a == "regex":
            k += 1
            lines.append('    #[regex("r%d+"%s)]' % (k, cb))
        else:
            lines.append("    " + ATTR_TEXT[a])
    lines.append({"unit": "    V1,", "disc": "    V1 = 7,", "tuple": "    V1(u32),", "tuple_attr": "    V1(#[serde(skip)] u32),"}[s["field"]])
    if not stripped:
        lines.append('    #[token("zz")]')
    lines.append("    /// kept")
    lines.append("    Z,")
    if s["gen"] == "lt":
        if not stripped:
            lines.append('    #[regex("q+")]')
        lines.append("    Q(&'s str),")
    elif s["gen"] != "none":
        if not stripped:
            lines.append('    #[token("t", |_| Default::default())]')
        lines.append("    T1(T),")
    lines.append("}")
    return "\n".join(lines) + "\n"


def cli_run(tier, seed):
    t0 = time.time()
    maxops = 3 if tier == "quick" else 4
    res = run_tlc("Cli.tla", "Cli.cfg", {"MAXOPS": str(maxops)}, workers=4, metaname="cli")
    if not res["ok"]:
        raise ToolError("Cli.tla violated at specification level:\n" + res["out"][-2000:])
    recs = list(tlc_records(res))
    strips = [r[2] for r in recs if r[0] == "STRIP"]
    files = [r[2] for r in recs if r[0] == "FILES"]
    enum_items = [r[2] for r in recs if r[0] == "ITEM"]
    if not enum_items:
        raise ToolError("Cli.tla printed no ITEM records")
    rng = random.Random(seed + 17)
    if tier == "quick" and len(strips) > 1600:
        strips = rng.sample(strips, 1600)
    n_enum_items = len(enum_items)
    if len(enum_items) > (1200 if tier == "quick" else 12000):
        enum_items = rng.sample(enum_items, 1200 if tier == "quick" else 12000)
    cli = build_cli()
    wd = os.path.join(workdir(), "cli-%d" % os.getpid())
    shutil.rmtree(wd, ignore_errors=True)
    os.makedirs(wd)
    findings = []
    items = []
    inp = os.path.join(wd, "in.rs")
    for k, c in enumerate(strips):
        s = c["src"]
        src = render_cli_source(s)
        exp = render_cli_source(s, stripped=True, keep=c["keep"])
        # the reference is always the LF text: what rustc hands to the derive whatever the file's line endings
        with open(inp, "w", newline="") as f:
            f.write(src.replace("\n", "\r\n") if s.get("eol") == "crlf" else src)
        p = subprocess.run([cli, inp], capture_output=True, text=True)
        key = "strip:%s|%s%s|%s|%s|%d" % (",".join(s["first"]), "T" if s["trailing"] else "-", ("t" if s.get("sep") == "tight" else "") + ("r" if s.get("eol") == "crlf" else ""), ",".join(s["second"]), s["extras"], s["nlogos"])
        if p.returncode != 0:
            findings.append({"key": key, "what": "logos-cli failed (exit %d): %s" % (p.returncode, p.stderr[-300:]), "source": src})
            continue
        items.append({"id": key, "src": src, "stdout": p.stdout, "expect": exp})
    for c in enum_items:
        s = c["src"]
        src = render_cli_item(s, s["vattrs"], s["eattrs"])
        exp = render_cli_item(s, c["vkeep"], c["ekeep"])
        with open(inp, "w", newline="") as f:
            f.write(src)
        p = subprocess.run([cli, inp], capture_output=True, text=True)
        key = "item:%s|%s|%s|%s|%s" % (s["vis"], s["gen"], s["field"], ",".join(s["vattrs"]), ",".join(s["eattrs"]))
        if p.returncode != 0:
            findings.append({"key": key, "what": "logos-cli failed (exit %d): %s" % (p.returncode, p.stderr[-300:]), "source": src})
            continue
        items.append({"id": key, "src": src, "stdout": p.stdout, "expect": exp})
    with open(os.path.join(wd, "cc.ndjson"), "w") as f:
        for it in items:
            f.write(json.dumps(it) + "\n")
    run([build_gen(), "clicheck", os.path.join(wd, "cc.ndjson"), os.path.join(wd, "cc.out")], timeout=3600)
    for it, l in zip(items, open(os.path.join(wd, "cc.out"))):
        o = json.loads(l)
        if o["why"]:
            findings.append({"key": it["id"], "what": o["why"][:600], "source": it["src"], "expected_enum": it["expect"], "stdout_head": it["stdout"][:400]})
    # file histories (the source carries a kept attribute whose string literal contains a line break, so that the
    # output has several lines and "a file that holds only the first line" is a proper prefix at line granularity)
    src = render_cli_source({"first": ["Debug", "Logos"], "trailing": False, "second": [], "extras": "none", "nlogos": 1})
    src = src.replace("pub enum Tok {", '#[doc = "two\nlines"]\npub enum Tok {')
    with open(inp, "w") as f:
        f.write(src)
    p = subprocess.run([cli, inp], capture_output=True, text=True)
    current = p.stdout[:-1] if p.stdout.endswith("\n") else p.stdout
    if p.returncode != 0 or current.count("\n") < 1 or len(current) < 40:
        raise ToolError("logos-cli output for the file histories is not a multi-line text: exit %d, %r" % (p.returncode, current[:200]))

    pf = subprocess.run([cli, inp, "--format"], capture_output=True, text=True)
    current_fmt = pf.stdout[:-1] if pf.stdout.endswith("\n") else pf.stdout      # println! adds one line break
    if pf.returncode != 0 or current_fmt.count("\n") < 5 or current_fmt.rstrip("\n") == current.rstrip("\n"):
        raise ToolError("logos-cli --format did not produce a formatted text (is rustfmt in PATH?): exit %d, %r" % (pf.returncode, pf.stderr[-200:]))

    def one_history(arg):
        wk, h = arg
        outp = os.path.join(wd, "out-%d.rs" % wk)
        if os.path.exists(outp):
            os.remove(outp)
        trail = []
        for op, exit_exp, file_exp in h["hist"]:
            before = open(outp, "rb").read() if os.path.exists(outp) else None
            rc = 0
            if op == "write":
                rc = subprocess.run([cli, inp, "--output", outp], capture_output=True).returncode
            elif op == "check":
                rc = subprocess.run([cli, inp, "--output", outp, "--check"], capture_output=True).returncode
            elif op == "writef":
                rc = subprocess.run([cli, inp, "--output", outp, "--format"], capture_output=True).returncode
            elif op == "checkf":
                rc = subprocess.run([cli, inp, "--output", outp, "--format", "--check"], capture_output=True).returncode
            elif op == "tamper":
                if os.path.exists(outp):
                    with open(outp, "a") as f:
                        f.write("// tampered\n")
            elif op in ("cutline", "chop", "flip", "empty"):
                if os.path.exists(outp):
                    data = open(outp, "rb").read()
                    if op == "cutline":
                        data = data.split(b"\n")[0] + (b"\n" if b"\n" in data else b"")
                    elif op == "chop":
                        data = data[:-10]
                    elif op == "flip":
                        k = len(data) // 2
                        data = (data[:k] + (b"#" if data[k:k + 1] != b"#" else b"%") + data[k + 1:]) if data else b"#"
                    else:
                        data = b""
                    with open(outp, "wb") as f:
                        f.write(data)
            elif op == "crlf":
                if os.path.exists(outp) and open(outp, newline="").read() == current:
                    with open(outp, "w", newline="") as f:
                        f.write(current.replace("\n", "\r\n") + "\r\n")
            elif op == "addeol":
                if os.path.exists(outp) and open(outp, newline="").read() == current:
                    with open(outp, "w", newline="") as f:
                        f.write(current + "\n")
            elif op == "delete":
                if os.path.exists(outp):
                    os.remove(outp)
            after = open(outp, "rb").read() if os.path.exists(outp) else None
            if after is None:
                st = "absent"
            elif after.decode(errors="replace") == current:
                st = "current"
            elif after.decode(errors="replace") == current + "\n":
                st = "eol"
            elif after.decode(errors="replace") == current_fmt:
                st = "fmt"
            elif b"\r\n" in after and after.decode(errors="replace").replace("\r\n", "\n").rstrip("\n") == current.rstrip("\n"):
                st = "crlf"
            else:
                st = "stale"
            trail.append((op, rc, st))
            bad = None
            if op in ("write", "check", "writef", "checkf") and (rc != 0) != (exit_exp != 0):
                bad = "exit status %d, expected %s" % (rc, "0" if exit_exp == 0 else "non-zero")
            elif st != file_exp:
                bad = "file is %s, expected %s" % (st, file_exp)
            elif op in ("check", "checkf") and before != after:
                bad = "--check modified the file"
            if bad:
                return len(trail), {"key": "files:" + ">".join(o[0] for o in h["hist"][: len(trail)]), "what": "after %s: %s" % (trail, bad), "source": src}
        return len(trail), None

    from concurrent.futures import ThreadPoolExecutor
    nthreads = 8
    n_steps = 0

    def shard(wk):
        return [one_history((wk, h)) for h in files[wk::nthreads]]
    with ThreadPoolExecutor(nthreads) as ex:
        for part in ex.map(shard, range(nthreads)):
            for n, f in part:
                n_steps += n
                if f:
                    findings.append(f)
    shutil.rmtree(wd, ignore_errors=True)
    samples = [{"source": s["src"], "expected_stripped": s["expect"]} for s in items[:: max(1, len(items) // 4)][:4]] + [{"history": h["hist"]} for h in files[:2]]
    return {"tlc": {k: res[k] for k in ("states", "distinct", "wall")}, "strip_cases": len(strips), "item_cases": len(enum_items), "item_cases_enumerated": n_enum_items, "histories": len(files), "history_steps": n_steps,
            "findings": findings, "samples": samples, "wall": time.time() - t0}


# ------------------------------------------------------------------------------------------
# C09: Regex.tla

SYM_BYTES = {"a": b"a", "b": b"b", "e": "é".encode(), "h": b"\xe2\x82", "f": b"\xff", "o": b"o", "x": b"(?-u:\\xff)"}
DOT_TEXT = {"nl": b".", "s": b"(?s:.)", "cls": b"[^\\n]"}


def render_ast_bytes(r, top=True):
    """AST of Regex.tla -> the bytes of the pattern text (h and f stand for bytes that are not valid UTF-8)."""
    t = r[0]
    if t == "lit":
        return b"".join(SYM_BYTES[c] for c in r[1])
    if t == "cls":
        return b"[" + b"".join(SYM_BYTES[c] for c in r[1]) + b"]"
    if t == "dot":
        return DOT_TEXT[r[1]]
    if t == "look":
        return b"$"
    if t == "empty":
        return b""
    if t == "cap":
        return b"(" + render_ast_bytes(r[1], False) + b")"
    if t == "cat":
        return b"".join(render_group(x, "cat") for x in r[1:3])
    if t == "alt":
        return render_ast_bytes(r[1], False) + b"|" + render_ast_bytes(r[2], False)
    if t in ("rep", "lazy"):
        lo, hi = r[2], r[3]
        inner = render_group(r[1], "rep")
        if (lo, hi) == (0, 99):
            q = b"*"
        elif (lo, hi) == (1, 99):
            q = b"+"
        elif (lo, hi) == (0, 1):
            q = b"?"
        elif hi == 99:
            q = b"{%d,}" % lo
        elif lo == hi:
            q = b"{%d}" % lo
        else:
            q = b"{%d,%d}" % (lo, hi)
        return inner + q + (b"?" if t == "lazy" else b"")
    raise ValueError(t)


def render_group(x, ctx):
    s = render_ast_bytes(x, False)
    if x[0] == "alt" or (x[0] == "empty" and ctx == "rep"):
        return b"(?:" + s + b")"
    if ctx == "rep" and not (x[0] in ("cls", "dot", "cap") or (x[0] == "lit" and len(x[1]) == 1 and x[1][0] in "abfo")):
        return b"(?:" + s + b")"
    return s


def render_ast(r, top=True):
    return render_ast_bytes(r, top).decode()


def prio_run(tier, seed):
    import corpus
    from pipeline import capture
    t0 = time.time()
    depth = 2
    res = run_tlc("Regex.tla", "Regex.cfg", {"DEPTH": str(depth)}, workers=8, metaname="regex")
    if not res["ok"]:
        raise ToolError("Regex.tla: LiteralNotBeaten violated at specification level:\n" + res["out"][-3000:])
    asts = [r[2] for r in tlc_records(res) if r[0] == "AST"]
    rng = random.Random(seed + 9)
    if tier == "quick" and len(asts) > 2500:
        small = [a for a in asts if len(json.dumps(a["r"])) < 60]
        rest = [a for a in asts if a not in small]
        asts = small + rng.sample(rest, 2500 - min(2500, len(small)))
    defs = []
    expect = []
    for k, a in enumerate(asts):
        text = render_ast(a["r"])
        for variant in ("regex", "skip", "icase", "explicit"):
            if variant != "regex" and k % 7 != 0:
                continue
            kw = {"greedy": True}
            exp = a["prio"]
            if variant == "icase":
                kw["icase"] = True
            if variant == "explicit":
                kw["prio"] = 11
                exp = 11
            if variant == "skip":
                d = corpus.mk("ast%d_%s" % (k, variant), [corpus.tok("zzzz")], [corpus.skip(text, **kw)])
                leaf = 0
            else:
                d = corpus.mk("ast%d_%s" % (k, variant), [corpus.rx(text, **kw)])
                leaf = 0
            defs.append(d)
            expect.append((exp, leaf, text, variant, a["r"]))
    # utf8 = false patterns with runs of bytes that are not valid UTF-8 (Regex.tla, MODE = bytes)
    resb = run_tlc("Regex.tla", "Regex.cfg", {"DEPTH": str(depth), "MODE": "bytes"}, workers=8, metaname="regexb")
    if not resb["ok"]:
        raise ToolError("Regex.tla (bytes): LiteralNotBeaten violated at specification level:\n" + resb["out"][-3000:])
    basts = [r[2] for r in tlc_records(resb) if r[0] == "AST"]
    n_basts = len(basts)
    if tier == "quick" and len(basts) > 2000:
        small = [a for a in basts if len(json.dumps(a["r"])) < 60]
        rest = [a for a in basts if a not in small]
        basts = small + rng.sample(rest, 2000 - min(2000, len(small)))
    for k, a in enumerate(basts):
        text = render_ast_bytes(a["r"])
        defs.append(corpus.mk("bast%d" % k, [corpus.rx(list(text), greedy=True)], utf8=False))
        expect.append((a["prio"], 0, text.decode("latin-1"), "regex-bytes", a["r"]))
    # str-literal patterns of a utf8 = false lexer with raw bytes written (?-u:\xff) between the characters (MODE = mixed):
    # a character or such a byte counts once, with and without ignore(case)
    resm = run_tlc("Regex.tla", "Regex.cfg", {"DEPTH": str(depth), "MODE": "mixed"}, workers=8, metaname="regexm")
    if not resm["ok"]:
        raise ToolError("Regex.tla (mixed): LiteralNotBeaten violated at specification level:\n" + resm["out"][-3000:])
    masts = [r[2] for r in tlc_records(resm) if r[0] == "AST"]
    n_masts = len(masts)
    if tier == "quick" and len(masts) > 1200:
        small = [a for a in masts if len(json.dumps(a["r"])) < 60]
        rest = [a for a in masts if a not in small]
        masts = small + rng.sample(rest, 1200 - min(1200, len(small)))
    for k, a in enumerate(masts):
        text = render_ast_bytes(a["r"]).decode()
        for variant in ("regex-mixed", "icase-mixed"):
            if variant == "icase-mixed" and k % 3 != 0:
                continue
            kw = {"greedy": True}
            if variant == "icase-mixed":
                kw["icase"] = True
            defs.append(corpus.mk("mast%d_%s" % (k, variant[:5]), [corpus.rx(text, **kw)], utf8=False))
            expect.append((a["prio"], 0, text, variant, a["r"]))
    # literal tokens: 2 x byte length, explicit priority overrides
    lits = ["a", "ab", "é", "éa", "a.b", "€", "😀x", "+", "abc"]
    for k, w in enumerate(lits):
        defs.append(corpus.mk("tokp%d" % k, [corpus.tok(w)]))
        expect.append((2 * len(w.encode()), 0, w, "token", None))
        defs.append(corpus.mk("tokpi%d" % k, [corpus.tok(w, icase=True)]))
        expect.append((2 * len(w.encode()), 0, w, "token-icase", None))
        defs.append(corpus.mk("tokpe%d" % k, [corpus.tok(w, prio=3)]))
        expect.append((3, 0, w, "token-explicit", None))
    for k, w in enumerate([b"\xff", b"a\x80b", b"ab"]):
        defs.append(corpus.mk("tokb%d" % k, [corpus.tok(w)], utf8=False))
        expect.append((2 * len(w), 0, w.hex(), "token-bytes", None))
    defs_path, metas, _ = capture(defs, "prio")
    findings = []
    n_ok = 0
    for m, (exp, leaf, text, variant, ast) in zip(metas, expect):
        if m["panic"]:
            findings.append({"key": "prio:panic:%s:%s" % (variant, text), "what": "derive panicked on %s: %s" % (text, m["panic"]), "source": m["src"]})
            continue
        cl = m["captured_leaves"]
        if not cl:
            findings.append({"key": "prio:noleaf:%s:%s" % (variant, text), "what": "no leaf captured for %s (%s)" % (text, m["errors"][:1]), "source": m["src"]})
            continue
        got = cl[leaf]["prio"]
        if got != exp:
            findings.append({"key": "prio:%s:%s" % (variant, text), "what": "%s %r: priority %d, the documented rule gives %d" % (variant, text, got, exp), "source": m["src"], "ast": ast})
        else:
            n_ok += 1
    samples = [{"pattern": e[2], "kind": e[3], "expected_priority": e[0]} for e in expect[:: max(1, len(expect) // 6)][:6]]
    return {"tlc": {k: res[k] + resb[k] + resm[k] for k in ("states", "distinct", "wall")}, "asts": len(asts), "asts_bytes": len(basts), "asts_bytes_enumerated": n_basts, "asts_mixed": len(masts), "asts_mixed_enumerated": n_masts,
            "cases": len(expect), "agree": n_ok, "findings": findings, "samples": samples, "wall": time.time() - t0}


# ------------------------------------------------------------------------------------------
# C19: the greedy-dot rule (Regex.tla, MODE = dot: GreedyAll)

def greedy_run(tier, seed):
    """Every AST of the dot fragment through the real derive without allow_greedy: the greedy-dot
    diagnostic must be present exactly when GreedyAll holds; with allow_greedy it must never be."""
    import corpus
    from pipeline import capture
    t0 = time.time()
    res = run_tlc("Regex.tla", "Regex.cfg", {"DEPTH": "2", "MODE": "dot"}, workers=8, metaname="regexdot")
    if not res["ok"]:
        raise ToolError("Regex.tla (dot) violated at specification level:\n" + res["out"][-2000:])
    asts = [r[2] for r in tlc_records(res) if r[0] == "AST"]
    defs = []
    expect = []
    for k, a in enumerate(asts):
        text = render_ast(a["r"])
        defs.append(corpus.mk("gd%d" % k, [corpus.rx(text)]))
        expect.append((a["greedy"], text, "regex", a["r"]))
        if k % 5 == 0:
            defs.append(corpus.mk("gds%d" % k, [corpus.tok("zzzz")], [corpus.skip(text)]))
            expect.append((a["greedy"], text, "skip", a["r"]))
        if k % 5 == 1:
            defs.append(corpus.mk("gda%d" % k, [corpus.rx(text, greedy=True)]))
            expect.append((False, text, "regex-allow_greedy", a["r"]))
    defs_path, metas, _ = capture(defs, "greedy")
    findings = []
    n_ok = 0
    n_greedy = 0
    for m, (exp, text, variant, ast) in zip(metas, expect):
        if m["panic"]:
            findings.append({"key": "greedy:panic:%s:%s" % (variant, text), "what": "derive panicked on %s: %s" % (text, m["panic"]), "source": m["src"]})
            continue
        got = any("greedy" in e for e in m["errors"])
        n_greedy += 1 if exp else 0
        if got != exp:
            findings.append({"key": "greedy:%s:%s" % (variant, text),
                             "what": "%s %r: %s, the rule says it %s an unbounded greedy dot repetition" % (variant, text, "rejected as greedy" if got else "greedy-dot diagnostic missing (%s)" % ("accepted" if m["accepted"] else m["errors"][:1]), "contains" if exp else "does not contain"),
                             "source": m["src"], "ast": ast})
        else:
            n_ok += 1
    samples = [{"pattern": e[1], "kind": e[2], "must_be_rejected_as_greedy": e[0]} for e in expect[:: max(1, len(expect) // 6)][:6]]
    return {"tlc": {k: res[k] for k in ("states", "distinct", "wall")}, "asts": len(asts), "cases": len(expect), "agree": n_ok, "greedy_cases": n_greedy, "findings": findings, "samples": samples, "wall": time.time() - t0}


# ------------------------------------------------------------------------------------------
# C16: GenTrace.tla

def det_run(tier, seed, defs):
    """generate() for every definition on several threads of several processes, both code
    generators; the digests form a trace validated by GenTrace.tla."""
    from pipeline import SPEC, TLA_JAR
    t0 = time.time()
    for i, d in enumerate(defs):
        d["enum_name"] = "D%d" % (i + 1)
    wd = os.path.join(workdir(), "det-%d" % os.getpid())
    shutil.rmtree(wd, ignore_errors=True)
    os.makedirs(wd)
    with open(os.path.join(wd, "in.ndjson"), "w") as f:
        for d in defs:
            f.write(json.dumps(d, sort_keys=True) + "\n")
    threads = 4 if tier == "quick" else 8
    procs = 3 if tier == "quick" else 8
    events = []
    procs_run = []
    for cfg, feats in (("tc", ()), ("sm", ("sm",))):
        g = build_gen(feats)
        for p in range(procs):
            outp = os.path.join(wd, "h-%s-%d.ndjson" % (cfg, p))
            procs_run.append((cfg, outp, subprocess.Popen([g, "hash", os.path.join(wd, "in.ndjson"), outp, str(threads)], env=ENV_BASE)))
    for cfg, outp, p in procs_run:
        if p.wait() != 0:
            raise ToolError("gen hash failed")
        for l in open(outp):
            e = json.loads(l)
            e["cfg"] = cfg
            e["def"] = e.pop("id")
            e["panic"] = e["panic"] or ""
            events.append(e)
    # interleave processes/threads so that the first event per key is not always from the same place
    rng = random.Random(seed)
    rng.shuffle(events)
    tpath = os.path.join(wd, "trace.ndjson")
    with open(tpath, "w") as f:
        for e in events:
            f.write(json.dumps(e) + "\n")
    cmd = ["timeout", "1200", "java", "-XX:+UseParallelGC", "-Xmx4g", "-Dtlc2.tool.queue.IStateQueue=StateDeque", "-cp", TLA_JAR, "tlc2.TLC", "-workers", "1",
           "-metadir", os.path.join(wd, "meta"), "-cleanup", "-noGenerateSpecTE", "-config", os.path.join(SPEC, "GenTrace.cfg"), os.path.join(SPEC, "GenTrace.tla")]
    p = subprocess.run(cmd, cwd=SPEC, env=dict(ENV_BASE, TRACE=tpath), capture_output=True, text=True)
    findings = []
    if "No error has been found" not in p.stdout:
        rej = [r for r in tlc_records(p.stdout) if r[0] == "REJECT"]
        if not rej:
            raise ToolError("GenTrace validation failed without REJECT:\n" + p.stdout[-2000:])
        # report every key with more than one digest (the trace spec stops at the first)
        by = {}
        for e in events:
            by.setdefault((e["def"], e["cfg"]), set()).add((e["out"], e["graph"], e["strip"]))
        src = {d["id"]: d for d in defs}
        for (did, cfg), vals in sorted(by.items()):
            if len(vals) > 1:
                findings.append({"key": "det:%s:%s" % (did, cfg), "what": "%d different outputs for %s (%s) across %d threads x %d processes: %s" % (len(vals), did, cfg, threads, procs, sorted(vals)[:2]), "definition": src[did]})
    # the two code generators must be given the same graph
    g_by = {}
    for e in events:
        g_by.setdefault(e["def"], {}).setdefault(e["cfg"], e["graph"])
    shutil.rmtree(wd, ignore_errors=True)
    samples = events[:3]
    return {"events": len(events), "keys": len({(e["def"], e["cfg"]) for e in events}), "threads": threads, "processes": procs, "findings": findings, "samples": samples,
            "definitions": len(defs), "wall": time.time() - t0}


# ------------------------------------------------------------------------------------------
# RegexAgree: textbook semantics (Regex.tla Matches) vs the real lexer

def regex_agree_run(tier, seed):
    import corpus
    from pipeline import build_subjects, capture, run_subject
    t0 = time.time()
    res = run_tlc("Regex.tla", "Regex.cfg", {"DEPTH": "2"}, workers=8, metaname="regexagree")
    if not res["ok"]:
        raise ToolError("Regex.tla violated at specification level:\n" + res["out"][-2000:])
    rng = random.Random(seed + 23)
    cands = {}
    for tag, sub, a in tlc_records(res, only="AST"):
        if not a["lp"] or a["nullable"]:
            continue
        text = render_ast(a["r"])
        if text not in cands:
            cands[text] = a
    texts = sorted(cands)
    n = 250 if tier == "quick" else 2500
    small = [t for t in texts if len(t) <= 6]
    pick = small[:100] + rng.sample(texts, min(n, len(texts)))
    pick = sorted(set(pick))
    defs = [corpus.mk("ra%d" % k, [corpus.rx(t, greedy=True)]) for k, t in enumerate(pick)]
    defs_path, metas, _ = capture(defs, "regexagree")
    bins = build_subjects(metas, ["tc"], "regexagree")
    ch = {"a": b"a", "b": b"b", "e": "é".encode()}
    reqs = []
    for m, t in zip(metas, pick):
        if not m["accepted"]:
            continue
        for w, lp in cands[t]["lp"]:
            data = b"".join(ch[c] for c in w)
            exp_end = len(b"".join(ch[c] for c in w[:lp]))
            reqs.append(("%d f1 %s" % (m["idx"], data.hex()), m, t, "".join(w), exp_end))
    findings = []
    reps = run_subject(bins["tc"], [r[0] for r in reqs], timeout=1800)
    for (line, m, t, w, exp_end), rep in zip(reqs, reps):
        items = rep.get("items")
        if items is None:
            findings.append({"key": "regexagree:%s:%s" % (t, w), "what": "crash on pattern %r word %r: %s" % (t, w, rep), "definition": m["src"]})
            continue
        got_end = items[0][3] if items and items[0][0] == "ok" else 0
        if got_end != exp_end:
            findings.append({"key": "regexagree:%s:%s" % (t, w), "what": "pattern %r on %r: textbook semantics match the first %d bytes, the lexer matched %d" % (t, w.replace("e", "é"), exp_end, got_end),
                             "definition": m["src"], "input_hex": line.split()[-1]})
    return {"patterns": len(pick), "accepted": sum(1 for m in metas if m["accepted"]), "words": len(reqs), "findings": findings, "states": res["distinct"], "wall": time.time() - t0,
            "samples": [{"pattern": r[2], "word": r[3], "expected_match_bytes": r[4]} for r in reqs[:: max(1, len(reqs) // 4)][:4]]}
