"""Engine A: Attempt.tla on captured graphs + replay of every product state on the compiled lexers.

attempt_run(name, defs, tier, seed, cfgs) -> result dict (cached in the tree work dir):
  tlc      : states / distinct / depth
  viol     : VIOL records logged by TLC on the captured graphs (model level)
  findings : mismatches between what the specification prescribes and what the real code did
  counts   : replay counts
"""
import json
import os
import random
import time

from pipeline import (ToolError, build_subjects, capture, harness_hash, log, repo_hash, run_subject,
                      run_tlc, sha, tlc_records, workdir)

K_CONT, K_BAD, K_NONE, K_ERR, K_TOK = "cont", "bad", "none", "err", "tok"


def block_bytes(meta, x):
    out = []
    for lo, hi in meta["blocks"][x - 1]:
        out.extend(range(lo, hi + 1))
    return out


def utf8_need(b):
    """continuation bytes still needed to complete the last (incomplete) character of b, as a list
    of valid bytes; [] if b ends on a boundary."""
    i = len(b) - 1
    k = 0
    while i >= 0 and (b[i] & 0xC0) == 0x80 and k < 3:
        i -= 1
        k += 1
    if i < 0:
        return []
    lead = b[i]
    if lead < 0x80:
        return []
    if lead >= 0xF0:
        n = 3
    elif lead >= 0xE0:
        n = 2
    elif lead >= 0xC0:
        n = 1
    else:
        return []
    have = len(b) - 1 - i
    if have >= n:
        return []
    need = []
    for j in range(have, n):
        if j == 0:
            need.append({0xE0: 0xA0, 0xED: 0x80, 0xF0: 0x90, 0xF4: 0x80}.get(lead, 0x80))
        else:
            need.append(0x80)
    return need


def round_boundary(b, e):
    while e < len(b) and (b[e] & 0xC0) == 0x80:
        e += 1
    return e


def first_attempt(reply):
    """Summarise what the first match attempt(s) of a run did, from the reply with trace events.
    Returns dict(kind=tok|err|none|skip, name, start, end) for the FIRST decision."""
    if "panic" in reply:
        return {"kind": "panic", "msg": reply["panic"]}
    if "died" in reply:
        return {"kind": "died", "msg": reply["died"]}
    if reply.get("badutf8"):
        return {"kind": "badutf8"}
    items = reply.get("items", [])
    evs = items[0][4] if items else reply.get("finev", [])
    for e in evs:
        if e[0] == 4:  # TRIVIA: first decision was a skip ending at e[1]
            return {"kind": "skip", "end": e[1], "start": 0}
    if items:
        it = items[0]
        return {"kind": "tok" if it[0] == "ok" else "err", "name": it[1], "start": it[2], "end": it[3]}
    return {"kind": "none", "start": reply["fin"][0], "end": reply["fin"][1]}


def expected_first(meta, out, data, is_str):
    """Expected first decision from a RefOut record of the specification."""
    k, leaf, end = out
    if k == K_NONE:
        return {"kind": "none"}
    if k == K_ERR:
        e = min(end, len(data))
        if is_str:
            e = round_boundary(data, e)
        return {"kind": "err", "start": 0, "end": e}
    name = meta["variants"][leaf - 1]
    if name is None:
        return {"kind": "skip", "start": 0, "end": end, "leaf": leaf}
    return {"kind": "tok", "name": name, "start": 0, "end": end, "leaf": leaf}


def same_decision(exp, got):
    if exp["kind"] != got["kind"]:
        return False
    if exp["kind"] == "none":
        return True
    if exp["kind"] == "skip":
        return exp["end"] == got["end"]
    if exp["kind"] == "tok":
        return exp["name"] == got["name"] and exp["start"] == got["start"] and exp["end"] == got["end"]
    if exp["kind"] == "err":
        return exp["start"] == got["start"] and exp["end"] == got["end"]
    return False


def hexs(b):
    return bytes(b).hex()


def attempt_run(name, defs, tier, seed, cfgs, tlc_workers=8):
    t0 = time.time()
    defs_path, metas, capdir = capture(defs, name)
    key = sha(open(defs_path).read(), harness_hash(), tier, str(seed), ",".join(cfgs))[:16]
    cache = os.path.join(workdir(), "attempt-%s-%s.json" % (name, key))
    if os.path.exists(cache):
        return json.load(open(cache))
    meta_by_idx = {m["idx"]: m for m in metas}
    log("[attempt:%s] %d defs captured (%d accepted) in %.1fs" % (name, len(metas), sum(m["accepted"] for m in metas), time.time() - t0))

    res = run_tlc("Attempt.tla", "Attempt.cfg", {"DEFS": defs_path, "HALT": "0", "EMIT": "1"}, workers=tlc_workers,
                  metaname="attempt-" + name, timeout=3000 if tier == "quick" else 10000)
    bins = build_subjects(metas, cfgs, name)
    log("[attempt:%s] TLC %d states, %d distinct, depth %d, %.1fs; subjects built (%.1fs)" % (name, res["states"], res["distinct"], res["depth"], res["wall"], time.time() - t0))

    rng = random.Random(seed)
    findings = []
    viols = []
    samples = []
    counts = {"replay": 0, "requests": 0, "explored": set()}

    def requests_of(rec):
        m = meta_by_idx[rec["d"]]
        is_str = m["utf8"]
        nb = len(m["blocks"])
        pbytes = []
        for x in rec["path"]:
            # bias towards the ends of the block: off-by-one mistakes in range tests live there
            bb = block_bytes(m, x)
            pbytes.append(rng.choice([bb[0], bb[-1], rng.choice(bb)]))
        out = []
        for x in range(1, nb + 1):
            o = rec["term"][x - 1]
            if o[0] in (K_CONT, K_BAD):
                continue
            bb = block_bytes(m, x)
            if tier == "thorough":
                picks = bb if len(bb) <= 8 else sorted(set([bb[0], bb[-1]] + rng.sample(bb, 6)))
            else:
                picks = sorted(set([bb[0], bb[-1], rng.choice(bb)]))[: (3 if len(rec["path"]) < 3 else 2)]
            for xb in picks:
                base = pbytes + [xb]
                if is_str:
                    base = base + utf8_need(base)
                for tail in ([], [0x61]):
                    data = base + tail
                    out.append(("%d ft %s" % (rec["d"], hexs(data)),
                                {"d": rec["d"], "what": "byte", "path": rec["path"], "x": x, "data": data, "exp": expected_first(m, o, data, is_str)}))
        if rec["eoi"][0] != K_BAD:
            data = list(pbytes)
            out.append(("%d ft %s" % (rec["d"], hexs(data)),
                        {"d": rec["d"], "what": "eoi", "path": rec["path"], "x": 0, "data": data, "exp": expected_first(m, rec["eoi"], data, is_str)}))
            out.append(("%d pt %s" % (rec["d"], hexs(data)),
                        {"d": rec["d"], "what": "buf", "path": rec["path"], "x": 0, "data": data, "must": rec["must"],
                         "exp": expected_first(m, rec["buf"], data, is_str)}))
        return out

    def flush(batch):
        if not batch:
            return
        lines = [r[0] for r in batch]
        replies_by_cfg = {}
        for c in cfgs:
            replies = run_subject(bins[c], lines, timeout=1800)
            if len(replies) != len(lines):
                raise ToolError("subject %s returned %d replies for %d requests" % (c, len(replies), len(lines)))
            replies_by_cfg[c] = replies
            for (line, info), rep in zip(batch, replies):
                got = first_attempt(rep)
                exp = info["exp"]
                m = meta_by_idx[info["d"]]
                if info["what"] == "buf":
                    must = info["must"]
                    if must == "none":
                        ok = got["kind"] == "none" and got.get("start") == 0 and got.get("end") == 0
                        kind = "partial_safety"
                    elif must == "commit":
                        ok = same_decision(exp, got)
                        kind = "partial_prompt" if got["kind"] == "none" else "partial_wrong"
                    else:
                        ok = got["kind"] == "none" or same_decision(exp, got)
                        kind = "partial_wrong"
                else:
                    ok = same_decision(exp, got)
                    kind = ("err_span" if exp["kind"] == "err" or got["kind"] == "err" else "munch") if info["what"] == "byte" else "eoi"
                    if got["kind"] in ("panic", "died"):
                        kind = "crash"
                if "guard" in rep and len(findings) < 5000:
                    findings.append({"def": m["id"], "cfg": c, "kind": "guard_diff", "what": info["what"], "input": hexs(info["data"]), "path": info["path"], "x": info["x"],
                                     "expected": "the same result whatever bytes lie next to the source in memory", "got": {"kind": "guard", "variant": rep["guard"], "with_neighbours": rep.get("guard_got", "")[:300], "exact": str(strip_events(rep))[:300]}, "src": m["src"]})
                if not ok and len(findings) < 5000:
                    findings.append({"def": m["id"], "cfg": c, "kind": kind, "what": info["what"], "input": hexs(info["data"]),
                                     "path": info["path"], "x": info["x"], "expected": exp, "got": got, "src": m["src"], "must": info.get("must")})
                elif not ok:
                    counts["more"] = counts.get("more", 0) + 1
        # C05/C06: all configurations must agree on everything they returned
        base = cfgs[0]
        for c in cfgs[1:]:
            for (line, info), ra, rb in zip(batch, replies_by_cfg[base], replies_by_cfg[c]):
                sa, sb = strip_events(ra), strip_events(rb)
                if sa != sb and len(findings) < 5000:
                    m = meta_by_idx[info["d"]]
                    findings.append({"def": m["id"], "cfg": base + "/" + c, "kind": "cfg_diff", "what": info["what"], "input": hexs(info["data"]),
                                     "path": info["path"], "x": info["x"], "expected": sa, "got": sb, "src": m["src"]})
        if len(samples) < 6:
            line, info = batch[len(batch) // 2]
            samples.append({"def": meta_by_idx[info["d"]]["id"], "input_hex": hexs(info["data"]), "mode": info["what"], "expected": info["exp"]})
        counts["requests"] += len(batch)

    batch = []
    for tag, sub, rec in tlc_records(res):
        if tag == "VIOL":
            if len(viols) < 2000:
                viols.append({"tag": sub, "d": rec["d"], "id": meta_by_idx[rec["d"]]["id"], "path": rec["path"], "w": rec["w"]})
            counts["viol"] = counts.get("viol", 0) + 1
            continue
        if tag != "REPLAY":
            continue
        counts["replay"] += 1
        counts["explored"].add(rec["d"])
        batch.extend(requests_of(rec))
        if len(batch) >= 120000:
            flush(batch)
            batch = []
    flush(batch)
    if counts["replay"] != res["distinct"]:
        raise ToolError("REPLAY lines (%d) != distinct states (%d)" % (counts["replay"], res["distinct"]))
    from pipeline import drop_records
    drop_records(res)
    log("[attempt:%s] %d replay requests x %d configurations, %d VIOL, %d findings" % (name, counts["requests"], len(cfgs), counts.get("viol", 0), len(findings) + counts.get("more", 0)))
    n_requests = counts["requests"]
    n_viol = counts.get("viol", 0)
    n_findings = len(findings) + counts.get("more", 0)
    explored = len(counts["explored"])
    # structural coverage: which kinds of graph states the explored definitions contain
    kinds = {}
    for line in open(defs_path):
        td = json.loads(line)
        if not (td["accepted"] and td["hasGraph"]):
            continue
        g = td["g"]
        for s_ in range(g["n"]):
            targets = {t for t in g["edge"][s_] if t}
            k = "%s%s/%s/%d-edges%s%s" % ("early" if g["early"][s_] else "late" if g["accept"][s_] else "plain",
                                          "+late" if g["early"][s_] and g["accept"][s_] else "",
                                          "loop" if (s_ + 1) in targets else "noloop", min(3, len(targets - {s_ + 1})),
                                          "/eoi" if g["eoi"][s_] else "", "/root" if g["root"] == s_ + 1 else "")
            kinds[k] = kinds.get(k, 0) + 1
    # ... and which implementations of an edge test the generator has to emit for them
    # (mirrors ByteClass::impl_with_cmp / Comparisons::count_ops; used as a coverage metric only)
    for line, m in zip(open(defs_path), metas):
        td = json.loads(line)
        if not (td["accepted"] and td["hasGraph"]):
            continue
        g = td["g"]
        for s_ in range(g["n"]):
            by_t = {}
            for x, t in enumerate(g["edge"][s_]):
                if t:
                    for lo, hi in m["blocks"][x]:
                        by_t.setdefault(t, []).extend(range(lo, hi + 1))
            nonself = [t for t in by_t if t != s_ + 1]
            for t, bs in by_t.items():
                bs.sort()
                ranges = []
                for b in bs:
                    if ranges and ranges[-1][1] + 1 == b:
                        ranges[-1][1] = b
                    else:
                        ranges.append([b, b])
                comps = []
                for lo, hi in ranges:
                    if comps and lo == comps[-1][1] + 2:
                        comps[-1][1] = hi
                        comps[-1][2] += 1
                    else:
                        comps.append([lo, hi, 0])
                ops = sum((1 if c[0] == c[1] else (c[0] > 0) + (c[1] < 255)) + c[2] for c in comps)
                if t == s_ + 1:
                    k = "edge:self-loop-lut"
                elif len(nonself) > 2:
                    k = "edge:jump-table"
                elif ops > 2:
                    k = "edge:lut-test"
                else:
                    k = "edge:compare%s%s" % ("-with-hole" if any(c[2] for c in comps) else "", "-multi" if len(comps) > 1 else "")
                kinds[k] = kinds.get(k, 0) + 1
    out = {
        "state_kinds": kinds,
        "name": name, "tier": tier, "seed": seed, "cfgs": cfgs,
        "tlc": {k: res[k] for k in ("states", "distinct", "depth", "wall")},
        "defs": len(metas), "accepted": sum(1 for m in metas if m["accepted"]),
        "explored": explored,
        "viol": viols, "n_viol": n_viol,
        "findings": findings, "n_findings": n_findings,
        "requests": n_requests, "runs": n_requests * len(cfgs),
        "samples": samples, "wall": time.time() - t0,
        "def_ids": {m["id"]: {"accepted": m["accepted"], "tags": m["tags"]} for m in metas},
    }
    with open(cache, "w") as f:
        json.dump(out, f)
    return out


def strip_events(rep):
    r = dict(rep)
    r.pop("finev", None)
    if "items" in r:
        r["items"] = [it[:4] for it in r["items"]]
    if "died" in r:
        r.pop("stderr", None)
    return r


def stages_run(name, defs, tier):
    """Compile stages: Attempt.tla on the graph as it is after every pass of Graph::new (raw, early,
    late, prune, final), captured by the hook.  Every pass must preserve the lexing function, so the
    invariants must hold at every stage; a stage that breaks them localises a fault to the pass before."""
    defs_path, metas, capdir = capture(defs, name + "-stages", stages=True)
    key = sha(open(defs_path).read(), harness_hash())[:16]
    cache = os.path.join(workdir(), "stages-%s-%s.json" % (name, key))
    if os.path.exists(cache):
        return json.load(open(cache))
    out_path = os.path.join(capdir, "defs_stages.ndjson")
    index = []
    with open(out_path, "w") as f:
        for line, m in zip(open(defs_path), metas):
            td = json.loads(line)
            if not (td["accepted"] and td["hasGraph"] and td["refsOk"]):
                continue
            for st in td["stages"]:
                if st["stage"] == "final" or st["n"] == 0:
                    continue
                d2 = dict(td)
                d2["g"] = {k: st[k] for k in ("root", "n", "early", "accept", "eoi", "edge")}
                d2["stages"] = []
                index.append((m["id"], st["stage"]))
                d2["idx"] = len(index)
                f.write(json.dumps(d2) + "\n")
    res = run_tlc("Attempt.tla", "Attempt.cfg", {"DEFS": out_path, "HALT": "0", "EMIT": "0"}, workers=8, metaname="stages-" + name,
                  timeout=3000 if tier == "quick" else 10000)
    viols = []
    for tag, sub, rec in tlc_records(res):
        if tag == "VIOL" and sub not in ("TPartPrompt", "TPartSafe", "TRoot"):
            did, stage = index[rec["d"] - 1]
            w = rec["w"]
            if stage != "prune":
                # before the prune pass dead-end paths are still in the graph: an attempt may read on
                # although nothing can match any more (T-exact) and error ends differ; matches do not
                if sub in ("TExact", "TMunchAbs"):
                    continue
                if sub == "TMunchEoi":
                    w = [x for x in w if x != "abs"]
                    if not w:
                        continue
            viols.append({"def": did, "stage": stage, "tag": sub, "path": rec["path"], "w": w})
    # the passes themselves, transcribed (Compile.tla): each captured snapshot must be exactly what the
    # specification's pass computes from the previous one.  Quick tier: the smaller graphs only.
    comp_path = os.path.join(capdir, "defs_compile.ndjson")
    limit = 30 if tier == "quick" else 100000
    n_comp = 0
    with open(comp_path, "w") as f:
        for line in open(defs_path):
            td = json.loads(line)
            raw = [st for st in td["stages"] if st["stage"] == "raw"]
            if td["hasGraph"] and raw and raw[0]["n"] <= limit and td["nB"] <= (40 if tier == "quick" else 100000):
                f.write(line)
                n_comp += 1
    passdiff = []
    comp = {"graphs": n_comp}
    if n_comp:
        cres = run_tlc("Compile.tla", "Compile.cfg", {"DEFS": comp_path}, workers=12, metaname="compile-" + name, timeout=3000 if tier == "quick" else 14000, xss="512m")
        comp_ids = [json.loads(l)["id"] for l in open(comp_path)]
        for tag, sub, rec in tlc_records(cres):
            if tag == "PASSDIFF":
                passdiff.append({"def": comp_ids[rec["d"] - 1], "pass": rec["pass"]})
        comp.update({"states": cres["distinct"], "wall": cres["wall"], "ok": cres["ok"]})
    out = {"tlc": {k: res[k] for k in ("states", "distinct", "depth", "wall")}, "graphs": len(index), "viol": viols[:500], "n_viol": len(viols),
           "compile": comp, "passdiff": passdiff[:200]}
    with open(cache, "w") as f:
        json.dump(out, f)
    return out
