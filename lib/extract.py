"""Definitions found in the repository under test (tests, examples, benches, codegen fixtures),
extracted at check time so that the corpus follows the tree."""
import glob
import json
import os

from pipeline import REPO, build_gen, run, workdir


def repo_defs():
    files = []
    for pat in ("tests/tests/*.rs", "tests/tests/**/*.rs", "examples/*.rs", "tests/benches/*.rs", "logos-codegen/tests/data/**/*.rs", "tests/src/*.rs"):
        files += glob.glob(os.path.join(REPO, pat), recursive=True)
    files = sorted(set(f for f in files if "/ui/" not in f))
    out = os.path.join(workdir(), "repo_defs.ndjson")
    run([build_gen(), "extract", out] + files, timeout=600)
    defs = []
    seen = {}
    for l in open(out):
        d = json.loads(l)
        base = d["id"].replace("/", "_").replace(":", "_").replace(".rs", "")
        n = seen.get(base, 0)
        seen[base] = n + 1
        d["id"] = base if n == 0 else "%s_%d" % (base, n)
        defs.append(d)
    return defs
