"""Trace validation (code -> spec): recorded hook events of real lexer runs, checked by TLC against
LexTrace.tla.  Many runs are concatenated into one NDJSON file per JVM."""
import json
import os
import subprocess
import time
from concurrent.futures import ThreadPoolExecutor

from pipeline import ENV_BASE, SPEC, TLA_JAR, ToolError, log, tlc_records, workdir


def byte_to_block(meta):
    m = {}
    for bi, ranges in enumerate(meta["blocks"]):
        for lo, hi in ranges:
            for b in range(lo, hi + 1):
                m[b] = bi + 1
    return m


def conv(ev):
    k, a, b, c = ev[0], ev[1], ev[2], ev[3]
    if k == 0:
        return {"e": "next", "start": a}
    if k == 1:
        return {"e": "read", "off": a, "n": b, "some": c == 1}
    if k == 2:
        return {"e": "end", "off": a}
    if k == 3:
        return {"e": "endb", "off": a, "res": b}
    if k == 4:
        return {"e": "trivia", "start": a}
    return None


def reply_to_events(meta, data, partial, rep):
    """NDJSON events of one traced run (reply of the driver with the 't' flag)."""
    b2b = byte_to_block(meta)
    out = [{"e": "run", "d": meta["idx"], "src": [b2b[x] for x in data], "partial": partial}]
    for it in rep["items"]:
        for ev in it[4]:
            c = conv(ev)
            if c:
                out.append(c)
        out.append({"e": "ret", "k": "tok" if it[0] == "ok" else "err", "name": it[1] if it[0] == "ok" else "", "s": it[2], "t": it[3]})
    for ev in rep.get("finev", []):
        c = conv(ev)
        if c:
            out.append(c)
    if not rep.get("capped"):
        out.append({"e": "ret", "k": "none", "name": "", "s": rep["fin"][0], "t": rep["fin"][1]})
    return out


MAX_REJECTS = 40      # a rejected run costs extra JVM starts; beyond this many the verdict does not change


def validate(defs_path, runs, name, spec="LexTrace.tla", cfg="LexTrace.cfg", jvms=8, per_file=12000, depth=0):
    """runs: list of event lists (each starting with a run event).  Returns (accepted_runs, rejects)
    where rejects is a list of dicts {run index, event index, event}."""
    wd = os.path.join(workdir(), "trace-%s-%d" % (name, os.getpid()))
    os.makedirs(wd, exist_ok=True)
    files = []
    cur = []
    cur_runs = []
    n = 0
    for ri, evs in enumerate(runs):
        if n + len(evs) > per_file and cur:
            files.append((cur, cur_runs))
            cur, cur_runs, n = [], [], 0
        cur_runs.append((ri, len(cur)))
        cur.extend(evs)
        n += len(evs)
    if cur:
        files.append((cur, cur_runs))

    def one(i):
        evs, idx = files[i]
        path = os.path.join(wd, "t%d.ndjson" % i)
        with open(path, "w") as f:
            for e in evs:
                f.write(json.dumps(e) + "\n")
        meta = os.path.join(wd, "meta%d" % i)
        cmd = ["timeout", "1200", "java", "-XX:+UseParallelGC", "-Xmx2g", "-Xss1g", "-Dtlc2.tool.queue.IStateQueue=StateDeque",
               "-cp", TLA_JAR, "tlc2.TLC", "-workers", "1", "-metadir", meta, "-cleanup", "-noGenerateSpecTE",
               "-config", os.path.join(SPEC, cfg), os.path.join(SPEC, spec)]
        e = dict(ENV_BASE, DEFS=defs_path, TRACE=path, CHECKRET="0" if cfg == "LexTraceReads.cfg" else "1")
        p = subprocess.run(cmd, cwd=SPEC, env=e, capture_output=True, text=True)
        subprocess.run(["rm", "-rf", meta])
        out = p.stdout
        if "Model checking completed. No error has been found." in out:
            return (i, None, len(evs))
        recs = [r for r in tlc_records(out) if r[0] == "REJECT"]
        if not recs:
            raise ToolError("trace validation failed without REJECT record:\n" + out[-3000:] + p.stderr[-1000:])
        return (i, recs[0][2], len(evs))

    rejects = []
    total = 0
    with ThreadPoolExecutor(max_workers=jvms) as ex:
        results = list(ex.map(one, range(len(files))))
    # a rejection stops the file: re-validate the remaining runs of that file separately
    pending = []
    accepted = 0
    for i, rej, nev in results:
        evs, idx = files[i]
        if rej is None:
            accepted += len(idx)
            total += nev
            continue
        at = rej["at"] - 1
        bad = max(k for k, (ri, off) in enumerate(idx) if off <= at)
        accepted += bad
        rejects.append({"run": idx[bad][0], "event_index": at - idx[bad][1], "event": rej["event"]})
        rest = idx[bad + 1:]
        if rest:
            pending.extend(runs[ri] for ri, off in rest)
            pending_idx = [ri for ri, off in rest]
            rejects[-1]["_rest"] = pending_idx
    subprocess.run(["rm", "-rf", wd])
    if len(rejects) >= MAX_REJECTS or depth >= 3:
        for r in rejects:
            r.pop("_rest", None)
        return accepted, rejects, total
    if pending:
        # recurse on the runs that were not examined because their file was rejected earlier
        rest_runs = []
        rest_map = []
        for r in rejects:
            for ri in r.pop("_rest", []):
                rest_map.append(ri)
                rest_runs.append(runs[ri])
        acc2, rej2, tot2 = validate(defs_path, rest_runs, name + "r", spec, cfg, jvms, max(200, per_file // 4), depth + 1)
        accepted += acc2
        total += tot2
        for r in rej2:
            r["run"] = rest_map[r["run"]]
            rejects.append(r)
    return accepted, rejects, total
