"""Engine T: random and structured inputs run on the real lexers with the runtime hook on; traces
validated by TLC against LexTrace.tla; configurations compared event by event."""
import json
import os
import random
import time

from lexrun import choose_chars
from pipeline import ToolError, build_subjects, capture, harness_hash, log, run_subject, sha, workdir
from trace import reply_to_events, validate


def gen_inputs(meta, tdef, rng, tier):
    """Concrete inputs for one definition: every length 0..17 around the 8-byte batch, a few longer
    ones, built from the definition's alphabet so that tokens, skips and errors all occur."""
    cs = choose_chars(tdef, meta, 8, rng)
    chars = [bytes(c[1]) for c in cs]
    if not chars:
        return []
    one = [c for c in chars if len(c) == 1] or chars
    out = []
    lens = list(range(0, 18)) + [23, 24, 25, 31, 32, 33, 40]
    if tier == "thorough":
        lens += [63, 64, 65, 100, 257, 1000]
    for n in lens:
        reps = 1 if tier == "quick" else 3
        for _ in range(reps):
            data = b""
            # runs of the same character exercise the fast loops; mixtures exercise forks
            while len(data) < n:
                c = rng.choice(chars)
                k = rng.choice([1, 1, 1, 2, 3, 8, 9, 16])
                data += c * k
            if len(data) > n:
                data = data[:n]
                if meta["utf8"]:
                    while data:
                        try:
                            data.decode()
                            break
                        except UnicodeDecodeError:
                            data = data[:-1]
                    while len(data) < n:
                        data += one[0] if len(one[0]) == 1 else b""
                        if len(one[0]) != 1:
                            break
            out.append(data)
    return out


def strip_d(rep):
    """events without the stack-address field"""
    def ev(e):
        return e[:4]
    r = dict(rep)
    if "items" in r:
        r["items"] = [it[:4] + [[ev(e) for e in it[4]]] for it in r["items"]]
    if "finev" in r:
        r["finev"] = [ev(e) for e in r["finev"]]
    r.pop("stderr", None)
    return r


def trace_run(name, defs, tier, seed, cfgs, jvms=10):
    t0 = time.time()
    defs_path, metas, capdir = capture(defs, name)
    tla_defs = [json.loads(l) for l in open(defs_path)]
    key = sha(open(defs_path).read(), harness_hash(), tier, str(seed), ",".join(cfgs))[:16]
    cache = os.path.join(workdir(), "trace-%s-%s.json" % (name, key))
    if os.path.exists(cache):
        return json.load(open(cache))
    rng = random.Random(seed + 11)
    bins = build_subjects(metas, cfgs, name)
    requests = []
    for td, m in zip(tla_defs, metas):
        if not (td["accepted"] and td["hasGraph"] and td["refsOk"]) or any(rf["nullable"] for rf in td["ref"]):
            continue
        for data in gen_inputs(m, td, rng, tier):
            for flag, partial in (("ft", False), ("pt", True)):
                requests.append(("%d %s %s" % (m["idx"], flag, data.hex()), {"d": m["idx"], "data": data, "partial": partial}))
    lines = [r[0] for r in requests]
    meta_by_idx = {m["idx"]: m for m in metas}
    replies = {}
    for c in cfgs:
        replies[c] = run_subject(bins[c], lines, timeout=1800)
        if len(replies[c]) != len(lines):
            raise ToolError("subject %s: %d replies for %d requests" % (c, len(replies[c]), len(lines)))
    findings = []
    base = cfgs[0]
    runs = []
    run_info = []
    crashes = 0
    for i, (line, info) in enumerate(requests):
        m = meta_by_idx[info["d"]]
        variants = {}
        for c in cfgs:
            rep = replies[c][i]
            if "items" not in rep:
                crashes += 1
                findings.append({"def": m["id"], "cfg": c, "kind": "crash", "input": info["data"].hex(), "partial": info["partial"], "got": rep, "src": m["src"]})
                continue
            variants.setdefault(json.dumps(strip_d(rep), sort_keys=True), []).append(c)
        if len(variants) > 1:
            ks = list(variants.items())
            findings.append({"def": m["id"], "cfg": "%s/%s" % (ks[0][1][0], ks[1][1][0]), "kind": "cfg_diff", "input": info["data"].hex(),
                             "partial": info["partial"], "got": [json.loads(k) for k, v in ks][:2], "src": m["src"]})
        for k, cs in variants.items():
            rep = json.loads(k)
            runs.append(reply_to_events(m, list(info["data"]), info["partial"], rep))
            run_info.append((i, cs))
    log("[trace:%s] %d requests x %d cfgs, %d distinct traces, %d events" % (name, len(requests), len(cfgs), len(runs), sum(len(r) for r in runs)))
    accepted, rejects, total = validate(defs_path, runs, name, jvms=jvms)
    for r in rejects:
        i, cs = run_info[r["run"]]
        line, info = requests[i]
        m = meta_by_idx[info["d"]]
        findings.append({"def": m["id"], "cfg": ",".join(cs), "kind": "trace_" + r["event"].get("e", "?"), "input": info["data"].hex(), "partial": info["partial"],
                         "event_index": r["event_index"], "event": r["event"], "trace": runs[r["run"]][: r["event_index"] + 2][-12:], "src": m["src"]})
    # implementation level: the same traces against the GraphLex model of the generated code
    gacc, grej, gtotal = validate(defs_path, runs, name + "g", spec="GraphTrace.tla", cfg="GraphTrace.cfg", jvms=jvms)
    drift = []
    for r in grej:
        i, cs = run_info[r["run"]]
        line, info = requests[i]
        m = meta_by_idx[info["d"]]
        drift.append({"def": m["id"], "cfg": ",".join(cs), "input": info["data"].hex(), "partial": info["partial"], "event_index": r["event_index"], "event": r["event"]})
    samples = []
    for k in range(0, len(runs), max(1, len(runs) // 4)):
        i, cs = run_info[k]
        samples.append({"def": meta_by_idx[requests[i][1]["d"]]["id"], "cfgs": cs, "input_hex": requests[i][1]["data"].hex(), "partial": requests[i][1]["partial"], "events": runs[k][:14]})
    out = {"name": name, "tier": tier, "seed": seed, "cfgs": cfgs, "requests": len(requests), "runs": len(requests) * len(cfgs),
           "distinct_traces": len(runs), "accepted": accepted, "events": sum(len(r) for r in runs), "events_consumed": total,
           "findings": findings[:2000], "n_findings": len(findings), "samples": samples[:4], "wall": time.time() - t0,
           "defs": len(metas), "explored": len({r[1]["d"] for r in requests}),
           "graphtrace_accepted": gacc, "graphtrace_events": gtotal, "drift": drift[:200], "n_drift": len(drift)}
    with open(cache, "w") as f:
        json.dump(out, f)
    return out
