"""Corpus of lexer definitions (the "programs" quantifier).

Every definition is a structured record (see harness/gen/src/main.rs DefIn) from which the
harness renders the Rust enum handed to the real derive AND builds, independently, the
reference automata.  Sources:
  1. shape corpus: hand-written definitions aimed at the mechanisms (look-around, early/late
     accepts, if-chain vs LUT vs jump table forks, fast loops, Unicode, case folding, bytes...)
  2. seeded random definitions (VERIF_SEED), biased to overlaps and look-around
  3. definitions extracted from /repo tests and examples at check time (lib/extract.py)
"""
import random


def S(s):
    return {"s": s}


def B(bs):
    return {"b": list(bs)}


def tok(p, **kw):
    a = {"kind": "token", "pat": S(p) if isinstance(p, str) else B(p)}
    a.update(kw)
    return a


def rx(p, **kw):
    a = {"kind": "regex", "pat": S(p) if isinstance(p, str) else B(p)}
    a.update(kw)
    return a


def skip(p, **kw):
    a = {"kind": "skip", "pat": S(p) if isinstance(p, str) else B(p)}
    a.update(kw)
    return a


def mk(id, leaves, skips=(), subs=(), utf8=True, tags=()):
    for l in leaves:
        for a in ([l] if isinstance(l, dict) else l):
            assert a["kind"] != "skip", id
    for s in skips:
        assert s["kind"] == "skip", id
    return {
        "id": id,
        "utf8": utf8,
        "subs": [{"name": n, "pat": S(p) if isinstance(p, str) else B(p)} for n, p in subs],
        "skips": list(skips),
        "vars": [{"attrs": [a]} if isinstance(a, dict) else {"attrs": list(a)} for a in leaves],
        "tags": list(tags),
    }


def shape_corpus():
    D = []
    a = D.append
    # --- keywords vs identifiers, overlaps, priorities
    a(mk("kw_ident", [tok("fn"), tok("for"), tok("fort"), rx("[a-z]+")], [skip(" +")]))
    a(mk("kw_many", [tok(k) for k in ["if", "in", "int", "interface", "is", "else", "elif", "end"]] + [rx("[a-z_][a-z0-9_]*")], [skip(r"[ \t\n]+")]))
    a(mk("ops", [tok(o) for o in ["+", "++", "+=", "-", "->", "--", "=", "==", "===", "<", "<=", "<<", "<<="]]))
    a(mk("num", [rx("[0-9]+"), rx(r"[0-9]+\.[0-9]+"), rx(r"[0-9]+(\.[0-9]+)?e[+-]?[0-9]+", prio=5)], [skip(" ")]))
    a(mk("prio_explicit", [rx("[a-c]+", prio=5), rx("[b-d]+", prio=3), tok("abc", prio=1)]))
    a(mk("prio_tok_beats", [tok("abc"), rx("[a-c]+"), rx("a.c", prio=1)]))
    a(mk("str_lit", [rx(r'"([^"\\]|\\.)*"'), rx("[a-z]+")], [skip(" ")]))
    a(mk("comment", [rx(r"/\*([^*]|\*+[^*/])*\*+/"), rx("//[^\n]*"), tok("/"), tok("*")], [skip(r"\s+")]))
    a(mk("lazy", [rx(r"<!--.*?-->", greedy=True), rx(r"a+?b"), rx("a+")]))
    a(mk("nested_rep", [rx("(a|aa)+b"), rx("(a*)*c"), rx("a+")]))
    a(mk("loop_in_loop", [rx("(f(ee)*d)+!"), rx("f+"), tok("e")]))
    a(mk("maybe", [rx("ab?c?d?"), rx("abcde?f"), tok("abc")]))
    a(mk("bounded", [rx("a{2,4}"), rx("a{3}b"), rx("[ab]{1,3}c")]))
    a(mk("alt_prefix", [rx("foo|foobar|foob"), rx("fo+"), tok("f")]))
    a(mk("single", [tok("x")]))
    a(mk("single_rx", [rx("x+y")]))
    a(mk("two_tok", [tok("ab"), tok("abcd")]))
    a(mk("skip_only_tail", [tok("a")], [skip("b+"), skip("c")]))
    a(mk("skip_prio", [rx("[a-z]+")], [skip("[a-z]+ ", prio=10), skip(" ")]))
    # --- look-around: the thin ice (late accepts, surviving EOI edges)
    a(mk("la_end", [rx("a$")]))
    a(mk("la_end2", [rx("a$"), tok("ab")]))
    a(mk("la_end3", [rx("ab$"), rx("a"), rx("b+")]))
    a(mk("la_end_loop", [rx("a+$"), rx("a+b")]))
    a(mk("la_mend", [rx("(?m:a$)"), tok("a\n"), rx("b")]))
    a(mk("la_wordb", [rx(r"[a-z]+(?-u:\b)"), rx("[a-z]+[0-9]+"), rx(" +")]))
    a(mk("la_wordb_mid", [rx(r"a(?-u:\b) b"), rx("a"), tok(" ")]))
    a(mk("la_wordb_kw", [rx(r"if(?-u:\b)", prio=10), rx("[a-z]+")], [skip(" ")]))
    a(mk("la_notb", [rx(r"a(?-u:\B)"), rx("ab+"), tok("a")]))
    a(mk("la_notb2", [rx(r"x(?-u:\B)y*"), tok("x")]))
    a(mk("la_end_alt", [rx("(a|ab)$"), rx("[ab]+c")]))
    a(mk("la_end_or", [rx("a($|b)"), rx("ac")]))
    a(mk("la_half", [rx(r"a(?-u:\b{end-half})"), rx("a1")]))
    a(mk("la_end_bytes", [rx(b"a$"), rx(b"a\xff")], utf8=False))
    a(mk("la_wordb_bytes", [rx(rb"[a-z]+(?-u:\b)"), rx(rb"[\x80-\xff]+")], utf8=False))
    a(mk("la_crlf", [rx("(?Rm:a$)"), rx("a\r"), rx("[\r\n]")]))
    a(mk("la_early_mix", [rx("ab*"), rx(r"ab*c(?-u:\b)"), rx("abcd")]))
    a(mk("la_two", [rx(r"a+(?-u:\b)"), rx("a+$", prio=9)]))
    a(mk("la_skip", [rx("[a-z]+")], [skip(r" +(?-u:\b)"), skip(" +")]))
    # look-ahead with nothing else continuing past it: a failed assertion must give an error
    a(mk("la_kw_only", [rx(r"if(?-u:\b)")]))
    a(mk("la_kw_paren", [rx(r"if(?-u:\b)"), tok("("), tok(" ")]))
    a(mk("la_kw_two", [rx(r"if(?-u:\b)"), rx(r"in(?-u:\b)"), rx(r"[0-9]+(?-u:\b)")], [skip(" ")]))
    a(mk("la_notb_only", [rx(r"-(?-u:\B)"), rx(r"\+(?-u:\B)\+?")]))
    a(mk("la_endhalf_only", [rx(r"ab(?-u:\b{end-half})"), tok("-")]))
    a(mk("la_wend_only", [rx(r"[a-z]+(?-u:\b{end})")], [skip(" ")]))
    a(mk("la_mend_only", [rx(r"(?m:end$)"), tok("\n")]))
    a(mk("la_end_only2", [rx(r"ab$")], [skip(" ")]))
    a(mk("la_bytes_kw", [rx(rb"if(?-u:\b)"), rx(rb"[\x80-\xff]")], utf8=False))
    # late-accept states that still have edges / self loops / an EOI edge (the match is revealed by a byte
    # that also continues another pattern)
    # definitions in which no pattern can ever match (an assertion that cannot hold follows consumed text):
    # every byte of every input is a one-byte error
    a(mk("dead_loop", [rx("a*b^")]))
    a(mk("dead_two", [rx("a*b^"), rx("[b-d]+$x")]))
    a(mk("dead_bytes", [rx(rb"(?-u)[a-z]*\x80^")], utf8=False))
    a(mk("dead_utf8", [rx("é*€^")]))
    a(mk("late_loop", [rx(r"[a-z]+(?-u:\B)"), rx("[0-9]")]))
    a(mk("late_loop_bytes", [rx(rb"(?-u)[a-z]+\B"), rx(rb"[0-9]+")], utf8=False))
    a(mk("late_loop_edges", [rx(r"[a-z]+(?-u:\B)"), rx("[a-z]+[0-9]"), rx("[a-z]+:[a-z]")]))
    a(mk("late_edge1", [rx(r"x(?-u:\B)"), rx("xy+z")]))
    a(mk("late_edge2", [rx(r"x(?-u:\B)"), rx("xab"), rx("xcd"), tok("y")]))
    a(mk("late_edge3", [rx(r"k(?-u:\B)"), rx("k[a-c]1"), rx("k[d-f]2"), rx("k[g-i]3"), rx("k[j-l]4")]))
    a(mk("late_mend_cont", [rx("(?m:a$)"), tok("a\nb"), tok("\n")]))
    a(mk("late_mend_loop", [rx("(?m:a+$)"), rx("a+\n+b"), tok("\n")]))
    a(mk("late_wordb_cont", [rx(r"[a-z]+(?-u:\b)"), rx("[a-z]+-[a-z]+"), tok("-")]))
    a(mk("late_wordb_loop", [rx(r"[a-z]+(?-u:\b)"), rx("[a-z]+ +x"), tok(" ")]))
    a(mk("late_eoi_edges", [rx("ab$"), rx("ab+c"), rx("abd")]))
    a(mk("late_two_leaves", [rx(r"a+(?-u:\B)"), rx(r"a+b(?-u:\B)", prio=9), rx("a+bc+d")]))
    a(mk("late_skip", [rx("[a-z]+x")], [skip(r"[a-z]+(?-u:\B)", prio=1), skip("[0-9]")]))
    # --- fork shapes: 1, 2, 3+ edges, holes, LUTs, jump tables
    a(mk("fork1", [rx("ab")]))
    a(mk("fork2", [rx("a[bc]"), rx("a[de]x")]))
    a(mk("fork3", [rx("a[b-d]"), rx("a[e-g]x"), rx("a[h-j]y"), rx("a[k-m]z")]))
    a(mk("holes", [rx("[a-eg-k]+"), rx("[fl-p]")]))
    a(mk("holes2", [rx("[acegikmoqsuwy]+"), rx("[bdfhjlnprtvxz]+")]))
    a(mk("luts", [rx("[%s]+[0-9]" % c) for c in ["a-c", "d-fx", "g-iy", "j-lz", "m-oA", "p-rB", "s-uC", "v-wD", "E-GE", "H-JF"]]))
    # classes with single-byte holes implemented by comparisons ("range && byte != hole"): non-loop
    # edges of states with at most two edges, at most two comparison operations
    a(mk("hole_cmp_nl", [rx(rb"a(?-u:[^\n])b"), rx(rb"[\n\t]")], utf8=False))
    a(mk("hole_cmp_a", [rx(rb"(?-u:[^a])z"), rx(rb"a+")], utf8=False))
    a(mk("hole_cmp_ascii", [rx(r"k[\x00-pr-\x7f]"), rx("kq+")]))
    a(mk("hole_cmp_hi", [rx(rb"x(?-u:[\x80-\xbe\xc0-\xff])"), rx(rb"x\xbf\xbf")], utf8=False))
    a(mk("hole_cmp_two", [rx(rb"m(?-u:[\x00-\x1f\x21-\x2f\x31-\xff])"), rx(rb"m[ 0]+")], utf8=False))
    a(mk("cmp_single", [rx("ab|ac"), rx("a[x-z]")]))
    a(mk("cmp_pair", [rx("p[ab]"), rx("p[y-z]q")]))
    a(mk("full_byte", [rx(r"(?s-u:.)"), rx("[a-z]{2}")], utf8=False))
    a(mk("any_until", [rx(r"(?s-u:.)*?;", greedy=True)], utf8=False))
    a(mk("dot", [rx(".", prio=1), rx("[a-z]+")]))
    a(mk("dot_bytes", [rx(".", prio=1), rx("[a-z]+")], utf8=False))
    # --- unicode
    a(mk("greek", [rx(r"\p{Greek}+"), rx("[a-z]+")], [skip(" ")]))
    a(mk("cyr", [rx("[а-яё]+"), tok("до"), rx("[0-9]+")], [skip(r"\s")]))
    a(mk("neg_cls", [rx("[^a-z]"), rx("[a-z]+")]))
    a(mk("neg_cls2", [rx(r"[^\x00-\x7f]+"), rx(r"[\x00-\x7f]")]))
    a(mk("emoji", [tok("🦀"), tok("🦀🦀", prio=20), rx("[🦀-🦂]+x")]))
    a(mk("mixed_len", [rx("[aé€😀]+"), tok("é€")]))
    a(mk("uni_word", [rx(r"\w+"), rx(r"\s+")]))
    a(mk("uni_icase", [rx("straße", icase=True), rx("[a-zß]+")]))
    a(mk("bytes_in_str", [rx(b"\xce\xb1+"), rx("[a-z]")]))
    a(mk("str_bytes_mode", [rx(r"\p{Greek}+"), rx(r"(?-u:[\x80-\xff])", prio=1), rx("[a-z]+")], utf8=False))
    a(mk("bytes_raw", [tok(b"\x00\xff"), rx(rb"[\x00-\x10]+"), tok(b"\xfe")], utf8=False))
    a(mk("bytes_hi", [rx(rb"\xF0\x9F[\x80-\xBF]{2}"), rx(rb"[\x80-\xBF]")], utf8=False))
    # --- byte tables: states with 3 and more outgoing edges (jump tables / LUTs) whose lowest or highest
    #     transition byte sits exactly on a boundary (00, 01, 3F/40, 7F/80/81, BF/C0, FE/FF)
    for bnd in (0x00, 0x01, 0x3f, 0x40, 0x7f, 0x80, 0x81, 0xbf, 0xc0, 0xfe, 0xff):
        lows = [x for x in (0x02, 0x11, 0x23, 0x35) if x < bnd][:3]
        highs = [x for x in (0xfd, 0xee, 0xdc, 0xca) if x > bnd][:3]
        if len(lows) >= 2:
            a(mk("btab_max_%02x" % bnd, [tok(bytes([bnd])), tok(bytes([lows[0]])), tok(bytes([lows[1]]))] + [tok(bytes([x])) for x in lows[2:]], utf8=False))
            a(mk("btab_in_max_%02x" % bnd, [tok(b"a" + bytes([bnd])), tok(b"a" + bytes([lows[0]])), tok(b"a" + bytes([lows[1]])), rx(b"a")], utf8=False))
            a(mk("btab_cls_max_%02x" % bnd, [rx(b"(?-u)[\\x%02x-\\x%02x]+" % (lows[1], bnd)), tok(bytes([lows[0]])), tok(b"\x00\x00")], utf8=False))
        if len(highs) >= 2:
            a(mk("btab_min_%02x" % bnd, [tok(bytes([bnd])), tok(bytes([highs[0]])), tok(bytes([highs[1]]))] + [tok(bytes([x])) for x in highs[2:]], utf8=False))
            a(mk("btab_cls_min_%02x" % bnd, [rx(b"(?-u)[\\x%02x-\\x%02x]+" % (bnd, highs[1])), tok(bytes([highs[0]])), tok(b"\xff\xff" if bnd < 0xfe else b"\x05")], utf8=False))
    # --- a self loop over ALL 256 bytes (only possible with utf8 = false): the state has no way out but the end of input
    a(mk("full_loop", [rx(b"#(?s-u:.)*", greedy=True, prio=1), tok(b"x"), tok(b"#")], utf8=False))
    a(mk("full_loop_plus", [rx(rb"[\x00-\xff]+", greedy=True)], utf8=False))
    a(mk("full_loop_skip", [tok(b"x")], [skip(b"%(?s-u:.)*", greedy=True)], utf8=False))
    # --- overlaps at equal priority that a third, higher-priority pattern covers completely (declared first, between, last)
    a(mk("tie_masked_last", [rx("[a-c]"), rx("[c-e]"), tok("c", prio=3)]))
    a(mk("tie_masked_first", [tok("c", prio=3), rx("[a-c]"), rx("[c-e]")]))
    a(mk("tie_masked_mid", [rx("[a-c]"), tok("c", prio=3), rx("[c-e]")]))
    a(mk("tie_masked_rx", [rx("[a-c]x?"), rx("[c-e]x?"), rx("cx?", prio=9)]))
    a(mk("tie_masked_partly", [rx("[a-c]"), rx("[b-e]"), tok("c", prio=3)]))
    # --- literals with metacharacters, case folding
    for i, w in enumerate(["a.b", "a+b*", "(x)", "[y]", "{1,2}", "a|b", "^$", "\\d", "a\\", "?", "\"q\"", "a b\tc\n", "(?i)x", "(?&n)"]):
        a(mk("meta%d" % i, [tok(w), rx("[a-z]+")]))
    a(mk("meta_bytes", [tok(b"a.b\xff"), tok(b"(\x80)"), rx(b"[a-z]+")], utf8=False))
    a(mk("icase_tok", [tok("Select", icase=True), rx("[a-z]+")]))
    a(mk("icase_tok2", [tok("k.K", icase=True), rx("[jJ]+")]))
    a(mk("icase_uni", [tok("Straße", icase=True), tok("ΑΒΓ", icase=True), rx("[0-9]+")]))
    a(mk("icase_kelvin", [tok("k", icase=True), rx("[0-9]+")]))
    a(mk("icase_bytes", [tok(b"Ab\xc3\x89", icase=True), rx(b"[0-9]+")], utf8=False))
    a(mk("icase_rx", [rx("[a-c]x+", icase=True), rx("abx", prio=9)]))
    a(mk("icase_skip", [rx("[0-9]+")], [skip("rem", icase=True), skip(" ")]))
    # --- subpatterns
    a(mk("sub_alt", [rx("(?&ab)c"), rx("a+")], subs=[("ab", "a|b")]))
    a(mk("sub_nested", [rx("(?&word) (?&word)"), rx("(?&letter)")], subs=[("letter", "[a-z]"), ("word", "(?&letter)+")]))
    a(mk("sub_flag", [rx("(?&ci)X"), rx("x+")], subs=[("ci", "(?i)ab")]))
    a(mk("sub_pos", [rx("(?&n)x"), rx("y(?&n)z"), rx("w(?&n)")], subs=[("n", "[0-9]+|n")]))
    a(mk("sub_bytes", [rx(b"(?&hi)+a"), rx(b"a")], subs=[("hi", b"[\x80-\xff]")], utf8=False))
    a(mk("sub_uni", [rx("(?&g)+"), rx("(?&g)x", prio=9)], subs=[("g", r"\p{Greek}")]))
    a(mk("sub_twice", [rx("(?&d)(?&d)-(?&d)"), rx("(?&d)")], subs=[("d", "[0-9]|x")]))
    a(mk("sub_word", [rx("(?&w)="), rx("(?&w)")], [skip(" ")], subs=[("w", r"\w+")]))
    a(mk("sub_negcls", [rx("<(?&n)>"), rx("[a-z]")], subs=[("n", "[^a-z<> ]+")]))
    a(mk("sub_dot", [rx("x(?&d)y"), rx("[xy]")], subs=[("d", ".")]))
    # --- rejected definitions (verdict checks live elsewhere; T-amb uses these)
    a(mk("amb_cls", [rx("[a-c]+"), rx("[b-d]+")]))
    a(mk("amb_tok_rx", [tok("ab"), rx("a[b]", prio=4)]))
    a(mk("amb_three", [rx("a+"), rx("a|b"), rx("[ab]"), tok("c")]))
    a(mk("amb_icase", [tok("ab", icase=True), tok("AB")]))
    a(mk("amb_look", [rx("a$"), rx("a")]))
    a(mk("amb_skip", [rx("a+")], [skip("a")]))
    a(mk("amb_none_prio", [rx("[a-c]+", prio=3), rx("[b-d]+")]))
    a(mk("nullable", [rx("a*"), tok("b")]))
    a(mk("nullable_tok", [tok(""), tok("b")]))
    a(mk("nullable_prio", [rx("[0-9]*", prio=3), tok("+")]))
    a(mk("nullable_prio_bytes", [rx(b"[0-9]*", prio=3), tok(b"+")], utf8=False))
    a(mk("nullable_skip_prio", [tok("x")], [skip("[ \t]*", prio=5)]))
    a(mk("nullable_sub", [rx("(?&o)"), tok("b")], subs=[("o", "x?")]))
    a(mk("nullable_look", [rx("$"), tok("b")]))
    # nullable although regex-syntax reports no minimum length: a class that matches nothing, optional, in an optional rest
    a(mk("nullable_never_opt", [rx("[a-z]*[^\\s\\S]?"), tok("1")], [skip(" +")]))
    a(mk("nullable_never_star", [rx("[a&&b]*x?"), tok("1")]))
    a(mk("nullable_never_alt", [rx("([a-z]+|[^\\s\\S]*)"), tok("1")]))
    a(mk("nullable_never_bytes", [rx(b"[a-z]*(?-u:[^\\x00-\\xff])?"), tok(b"1")], utf8=False))
    a(mk("nullable_never_skip", [tok("1")], [skip("[ ]*[^\\s\\S]?")]))
    a(mk("start_look", [rx("^a"), tok("b")]))
    a(mk("start_wordb", [rx(r"(?-u:\b)a"), tok("b")]))
    a(mk("undef_sub", [rx("(?&nope)a"), tok("b")]))
    a(mk("greedy_dot", [rx("a.*"), tok("b")]))
    a(mk("greedy_dot_ok", [rx("a.*", greedy=True), tok("b")]))
    a(mk("non_utf8", [rx(b"\xff+"), tok("b")]))
    a(mk("non_utf8_cls", [rx(r"(?-u:[\x80-\xff])"), tok("b")]))
    a(mk("non_utf8_sub", [rx("(?&h)a"), tok("b")], subs=[("h", b"\xfe")]))
    a(mk("uni_wordb", [rx(r"a\b"), tok("b")]))
    a(mk("non_utf8_skip", [tok("a"), tok("é")], [skip(b"\xc3")]))
    a(mk("non_utf8_skip_rx", [rx("[a-z]+")], [skip(r"(?-u:[\x80-\xbf])+")]))
    a(mk("non_utf8_tok", [tok(b"\xe9"), tok("b")]))
    a(mk("non_utf8_icase", [tok(b"\xc3", icase=True), tok("b")]))
    return D


# --- seeded random definitions ------------------------------------------------------------

ATOMS = ["a", "b", "c", "ab", "ba", "[ab]", "[a-c]", "[b-d]", "[^a]", ".", "é", "[é€]", "x", "1", "[0-9]"]
LOOKS = ["$", r"(?-u:\b)", r"(?-u:\B)", "(?m:$)"]


def rand_regex(rng, depth=0, look_ok=True):
    r = rng.random()
    if depth >= 3 or r < 0.3:
        return rng.choice(ATOMS)
    if r < 0.55:
        n = rng.randint(2, 3)
        return "".join(rand_regex(rng, depth + 1, look_ok) for _ in range(n))
    if r < 0.7:
        n = rng.randint(2, 3)
        return "(" + "|".join(rand_regex(rng, depth + 1, look_ok) for _ in range(n)) + ")"
    if r < 0.9:
        q = rng.choice(["+", "*", "?", "{1,2}", "{2}", "+?", "*?"])
        inner = rand_regex(rng, depth + 1, False)
        return "(" + inner + ")" + q
    if look_ok:
        return rand_regex(rng, depth + 1, False) + rng.choice(LOOKS)
    return rng.choice(ATOMS)


def random_corpus(seed, n):
    rng = random.Random(seed)
    out = []
    for k in range(n):
        nl = rng.randint(1, 4)
        leaves = []
        for _ in range(nl):
            if rng.random() < 0.3:
                w = "".join(rng.choice("abcxé1") for _ in range(rng.randint(1, 3)))
                leaves.append(tok(w, **({"prio": rng.randint(1, 6)} if rng.random() < 0.2 else {})))
            else:
                kw = {}
                if rng.random() < 0.3:
                    kw["prio"] = rng.randint(1, 8)
                if rng.random() < 0.1:
                    kw["icase"] = True
                kw["greedy"] = True
                leaves.append(rx(rand_regex(rng), **kw))
        skips = [skip(rng.choice([" ", " +", "[ \t]+", "_"]))] if rng.random() < 0.4 else []
        utf8 = rng.random() < 0.8
        out.append(mk("rnd%d_%d" % (seed, k), leaves, skips, utf8=utf8, tags=["random"]))
    return out


# --- byte-class shapes --------------------------------------------------------------------
# The generator implements the byte class of an edge as comparisons (a range with isolated holes), as a
# bit test in a look-up table or as a row of a jump table, and the class of a self loop as a look-up table
# read 8 bytes at a time.  Which one is chosen depends on the SHAPE of the class (number of ranges, holes of
# width one, ranges touching 00 or FF).  These definitions put every shape on an edge out of a state with
# one or two edges (comparisons / LUT), out of a state with four edges (jump table) and on a self loop.

BOUNDS = [0x00, 0x01, 0x2f, 0x30, 0x7e, 0x7f, 0x80, 0x81, 0xbf, 0xc0, 0xfe, 0xff]


def class_shapes():
    """list of (name, [(lo, hi), ...]) : sorted, non-adjacent ranges"""
    out = []
    for h in BOUNDS:                                   # everything but one byte
        rs = [r for r in ((0, h - 1), (h + 1, 255)) if r[0] <= r[1]]
        out.append(("not_%02x" % h, rs))
    for h in (0x01, 0x30, 0x7f, 0x80, 0xfe):            # everything but two bytes: adjacent, and one apart
        for gap in (1, 2):
            h2 = h + gap
            if h2 > 255:
                continue
            rs = [r for r in ((0, h - 1), (h + 1, h2 - 1), (h2 + 1, 255)) if r[0] <= r[1]]
            out.append(("not_%02x_%02x" % (h, h2), rs))
    for lo, hi in ((0x00, 0x2f), (0x00, 0x7f), (0x00, 0x80), (0x30, 0x39), (0x7f, 0x80), (0x80, 0xbf), (0x80, 0xff), (0x81, 0xff), (0xc0, 0xfe), (0x01, 0xfe)):
        out.append(("rng_%02x_%02x" % (lo, hi), [(lo, hi)]))
    for a, b, c, d in ((0x00, 0x2f, 0x31, 0x7f), (0x30, 0x39, 0x3b, 0x40), (0x41, 0x5a, 0x61, 0x7a), (0x00, 0x00, 0x02, 0x02), (0x7e, 0x7f, 0x81, 0x82),
                       (0x10, 0x7f, 0x81, 0xff), (0x00, 0x7f, 0xc0, 0xff), (0xfd, 0xfd, 0xff, 0xff), (0x30, 0x39, 0x80, 0x80)):
        out.append(("two_%02x_%02x_%02x_%02x" % (a, b, c, d), [(a, b), (c, d)]))
    for rs in ([(0x00, 0x0f), (0x11, 0x1f), (0x21, 0x2f)], [(0x30, 0x39), (0x41, 0x46), (0x61, 0x66)], [(0x01, 0x01), (0x03, 0x03), (0x05, 0xff)],
               [(0x00, 0x7e), (0x80, 0x80), (0x82, 0xff)], [(0x10, 0x10), (0x80, 0x80), (0xff, 0xff)]):
        out.append(("tri_" + "_".join("%02x%02x" % r for r in rs), rs))
    return out


def _cls_text(rs):
    return b"[" + b"".join((b"\\x%02x" % lo) if lo == hi else (b"\\x%02x-\\x%02x" % (lo, hi)) for lo, hi in rs) + b"]"


def class_shape_corpus(tier, seed):
    rng = random.Random(seed + 7001)
    shapes = class_shapes()
    if tier == "quick":
        keep = [s for s in shapes if s[0] in ("not_00", "not_7f_80", "two_30_39_3b_40")]
        rest = [s for s in shapes if s not in keep]
        shapes = keep + rng.sample(rest, 4)
    out = []
    for name, rs in shapes:
        out += class_defs(name, rs)
    # two edges of one state that lead to states the de-duplication pass folds into one: the edges are MERGED into one
    # class (ByteClass::merge); classes that meet at 7F / 80, that contain 00 and FF, one inside a hole of the other
    out += merge_defs("ff", [[(0x00, 0x7F)], [(0x80, 0xFF)]])
    out += merge_defs("00_fe", [[(0x01, 0x7F)], [(0x00, 0x00), (0x80, 0xFE)]])
    out += merge_defs("hole", [[(0x30, 0x39), (0x3B, 0x40)], [(0x3A, 0x3A)], [(0xFF, 0xFF)]])
    return out


def merge_defs(name, classes):
    """a definition in which the edges over `classes` (pairwise disjoint) leave one state and reach states with identical
    continuations, so that Graph::new merges them into one edge"""
    alts = b"|".join(b"\\x58" + _cls_text(c) + b"\\x59\\x5a" for c in classes[:3])
    # with a shorter token to fall back on (a lost byte shows as the wrong token, C01) and without (it shows as an error
    # where a token is due and as error spans that are too short, C02)
    return [mk("clsm_" + name, [rx(b"(?-u)(?:" + alts + b")"), tok(b"\x58")], utf8=False, tags=["class"]),
            mk("clsn_" + name, [rx(b"(?-u)(?:" + alts + b")"), tok(b"\x21")], utf8=False, tags=["class"])]


def class_defs(name, rs):
    """the four definitions that put the class `rs` on an edge (one edge, four edges) and on a self loop (inner, root)"""
    out = []
    if True:
        inside = {b for lo, hi in rs for b in range(lo, hi + 1)}
        outside = [b for b in range(256) if b not in inside]
        cls = _cls_text(rs)
        # the lead byte of the pattern and of the other tokens must lie outside the class where that matters
        # 1. one edge out of the state after the lead byte (comparisons or LUT test)
        out.append(mk("cls1_" + name, [rx(b"(?-u)\\x58" + cls), tok(b"\x58")], utf8=False, tags=["class"]))
        # 2. four edges out of that state (jump table): the class + three single bytes outside it, where there are any
        extra = outside[:1] + outside[len(outside) // 2: len(outside) // 2 + 1] + outside[-1:]
        extra = sorted(set(extra))
        if extra:
            out.append(mk("cls4_" + name, [rx(b"(?-u)\\x58" + cls)] + [tok(bytes([0x58, e, 0x21])) for e in extra] + [tok(b"\x58")], utf8=False, tags=["class"]))
        # 3. self loop over the class, left through a byte outside it (fast loop: LUT, 8 bytes at a time)
        if outside:
            ex = outside[len(outside) // 2]
            out.append(mk("clsl_" + name, [rx(b"(?-u)\\x58" + cls + b"*\\x%02x\\x21" % ex), tok(bytes([ex]))], utf8=False, tags=["class"]))
        # 4. self loop at the root (the loop is entered by its own first byte)
        out.append(mk("clsr_" + name, [rx(b"(?-u)" + cls + b"+")] + ([tok(bytes([outside[0]]) * 2)] if outside else []), utf8=False, tags=["class"]))
    return out


# shape-corpus definitions that the derive rejects on the reference tree (ambiguous, nullable, start-dependent, not UTF-8,
# ...); every other shape definition is written to be accepted.  A change of either is reported as SPEC-DRIFT by C01: the
# property-level verdicts on acceptance come from Derive.tla / Amb.tla / RefUtf8.tla, this list only tells when the corpus
# no longer exercises what it was written for.
REJECTED_SHAPES = {'comment', 'la_notb', 'la_notb2', 'la_skip', 'luts', 'bytes_in_str', 'tie_masked_partly', 'amb_cls', 'amb_tok_rx', 'amb_three',
                   'amb_icase', 'amb_look', 'amb_skip', 'nullable', 'nullable_tok', 'nullable_prio', 'nullable_prio_bytes', 'nullable_skip_prio',
                   'nullable_sub', 'nullable_look', 'nullable_never_opt', 'nullable_never_star', 'nullable_never_alt', 'nullable_never_bytes', 'nullable_never_skip', 'start_look', 'start_wordb', 'undef_sub', 'greedy_dot', 'non_utf8', 'non_utf8_cls', 'non_utf8_sub',
                   'uni_wordb', 'non_utf8_skip', 'non_utf8_skip_rx', 'non_utf8_tok', 'non_utf8_icase'}
