#!/usr/bin/env python3
import os, re, subprocess
VERIF = os.path.dirname(os.path.dirname(os.path.abspath(__file__)))
tbl = subprocess.run(["python3", os.path.join(VERIF, "lib", "seeded_table.py")], capture_output=True, text=True).stdout
p = os.path.join(VERIF, "DESIGN.md")
s = open(p).read()
s = re.sub(r"<!-- SEEDED-TABLE-BEGIN -->.*<!-- SEEDED-TABLE-END -->", lambda m: "<!-- SEEDED-TABLE-BEGIN -->\n" + tbl + "<!-- SEEDED-TABLE-END -->", s, flags=re.S)
open(p, "w").write(s)
