#!/usr/bin/env python3
"""Markdown table of the seeded changes and the checks that catch them (from seeded/*/meta.json)."""
import glob, json, os
VERIF = os.path.dirname(os.path.dirname(os.path.abspath(__file__)))
rows = []
for d in sorted(glob.glob(os.path.join(VERIF, "seeded", "*"))):
    mp = os.path.join(d, "meta.json")
    if not os.path.exists(mp):
        continue
    m = json.load(open(mp))
    patch = open(os.path.join(d, "patch.diff")).read() if os.path.exists(os.path.join(d, "patch.diff")) else ""
    files = sorted({l[6:].strip() for l in patch.splitlines() if l.startswith("+++ b/")})
    c = m.get("confirmed", {})
    conf = "suite passes, demo fails with / passes without" if (c.get("suite_passes_with_change") and c.get("demo_exit_with_change") not in (0, None) and c.get("demo_exit_without_change") == 0) else "see meta.json"
    checks = ", ".join("%s:%s" % (p, {0: "miss", 1: "CAUGHT"}.get(v["exit"], "tool-error")) for p, v in m.get("checks", {}).items())
    early = m.get("earlier_runs") or []
    missed_first = sorted({p for run in early for p, c in run.items() if c["exit"] == 0 and m.get("checks", {}).get(p, {}).get("exit") == 1})
    if missed_first:
        checks += " (missed at first: %s)" % ", ".join(missed_first)
    first = ""
    for p, v in m.get("checks", {}).items():
        if v["exit"] == 1 and v.get("first"):
            first = v["first"][0].strip()[:110]
            break
    rows.append("| %s | %s | %s | %s | %s | `%s` |" % (os.path.basename(d), m.get("breaks_property"), ", ".join(files), conf, checks, first.replace("|", "/")))
print("| seeded change | property | file | confirmed | checks run -> result | first reported key |")
print("|---|---|---|---|---|---|")
print("\n".join(rows))
