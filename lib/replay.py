"""./check replay <file>: re-run exactly the case recorded in a replay file against the current tree."""
import json
import re
import sys

from pipeline import build_subjects, run_subject


def replay(path):
    v = json.load(open(path))
    print("property:", v.get("property"), " key:", v.get("key"))
    print("what:", v.get("what"))
    src = v.get("definition") or v.get("source")
    if isinstance(src, dict):
        src = None
    if src and v.get("input_hex") is not None:
        m = re.search(r"pub enum D(\d+)", src)
        idx = int(m.group(1)) if m else 1
        meta = {"accepted": True, "src": src, "utf8": "utf8 = false" not in src, "idx": idx}
        cfg = (v.get("cfg") or "tc").replace(",", "/").split("/")[0]
        bins = build_subjects([meta], [cfg], "replay")
        mode = v.get("mode")
        flag = "pt" if (mode in ("buf", "partial") or v.get("partial")) else "ft"
        line = "%d %s %s" % (idx, flag, v["input_hex"])
        if v.get("splits"):
            line = "%d c %s %s" % (idx, v["input_hex"], ",".join(map(str, v["splits"])))
        rep = run_subject(bins[cfg], [line])[0]
        print("definition:\n" + src)
        print("request:", line, " cfg:", cfg)
        print("expected:", json.dumps(v.get("expected")))
        print("recorded:", json.dumps(v.get("got")))
        print("now     :", json.dumps({k: rep[k] for k in rep if k not in ("finev",)})[:1500])
        return 0
    if src:
        import front
        o = front.gen_strip([{"id": "replay", "src": src}], "replay")[0]
        print("source:\n" + src)
        print("derive now: panic=%s errors=%s" % (o["panic"], o["errors"][:3]))
        return 0
    print(json.dumps(v, indent=1)[:3000])
    return 0
