"""Demonstrates that the bindings are not vacuous: deliberately wrong traces, graphs and digests
must be rejected by the specifications.  `./check selftest` exits 0 iff every corruption is caught."""
import copy
import json
import os
import random
import subprocess
import sys

import corpus
from pipeline import (ENV_BASE, SPEC, TLA_JAR, ToolError, build_subjects, capture, log, run_subject, run_tlc, tlc_records, workdir)
from trace import reply_to_events, validate


def selftest(tier, seed):
    results = []
    defs = [d for d in corpus.shape_corpus() if d["id"] in ("kw_ident", "la_wordb", "num")]
    defs_path, metas, capdir = capture(defs, "selftest")
    bins = build_subjects(metas, ["tc"], "selftest")
    m = metas[0]
    data = b"fn fort  for x"
    rep = run_subject(bins["tc"], ["%d ft %s" % (m["idx"], data.hex())])[0]
    base = reply_to_events(m, list(data), False, rep)
    acc, rej, tot = validate(defs_path, [base], "st0")
    results.append(("LexTrace accepts the genuine trace", acc == 1))
    acc, rej, tot = validate(defs_path, [base], "st0g", spec="GraphTrace.tla", cfg="GraphTrace.cfg")
    results.append(("GraphTrace accepts the genuine trace", acc == 1))

    def corrupt(name, f, spec="LexTrace.tla", cfg="LexTrace.cfg"):
        t = copy.deepcopy(base)
        f(t)
        acc, rej, tot = validate(defs_path, [t], "stc", spec=spec, cfg=cfg)
        results.append((name, acc == 0 and len(rej) == 1))

    reads = [i for i, e in enumerate(base) if e["e"] == "read"]
    rets = [i for i, e in enumerate(base) if e["e"] == "ret" and e["k"] == "tok"]
    ends = [i for i, e in enumerate(base) if e["e"] == "end"]
    corrupt("LexTrace rejects a read that moves backwards", lambda t: t[reads[3]].update(off=0) if t[reads[3]]["off"] > 0 else t[reads[4]].update(off=0))
    corrupt("LexTrace rejects Some for an out-of-bounds read", lambda t: t[reads[-1]].update(some=True))
    corrupt("LexTrace rejects a wrong token name", lambda t: t[rets[0]].update(name="V9"))
    corrupt("LexTrace rejects a shortened span", lambda t: (t[rets[1]].update(t=t[rets[1]]["t"] - 1)))
    corrupt("LexTrace rejects a dropped next event", lambda t: t.pop([i for i, e in enumerate(t) if e["e"] == "next"][1]))
    corrupt("GraphTrace rejects a changed read size", lambda t: t[reads[2]].update(n=4), "GraphTrace.tla", "GraphTrace.cfg")
    corrupt("GraphTrace rejects a dropped end event", lambda t: t.pop(ends[0]), "GraphTrace.tla", "GraphTrace.cfg")

    # a corrupted captured graph must be flagged by Attempt.tla
    lines = open(defs_path).read().splitlines()
    d0 = json.loads(lines[0])
    def attempt_viols(dd):
        p = os.path.join(capdir, "selftest_bad.ndjson")
        with open(p, "w") as f:
            f.write(json.dumps(dd) + "\n")
        r = run_tlc("Attempt.tla", "Attempt.cfg", {"DEFS": p, "HALT": "0", "EMIT": "0"}, workers=2, metaname="selftest")
        return {x[1] for x in tlc_records(r) if x[0] == "VIOL"}
    results.append(("Attempt.tla is silent on the genuine graph", attempt_viols(d0) == set()))
    g1 = copy.deepcopy(d0)
    s = next(i for i, e in enumerate(g1["g"]["early"]) if e)
    g1["g"]["early"][s] = 0
    results.append(("Attempt.tla flags a removed early-accept mark", bool(attempt_viols(g1))))
    g2 = copy.deepcopy(d0)
    row = g2["g"]["edge"][g2["g"]["root"] - 1]
    x = next(i for i, t in enumerate(row) if t)
    row[x] = 0
    results.append(("Attempt.tla flags a removed root edge (T-live)", "TLive" in attempt_viols(g2)))
    g3 = copy.deepcopy(d0)
    g3["prio"][-1] = 100      # the identifier regex now outranks the keywords in the reference
    results.append(("Attempt.tla flags a changed priority (T-munch)", bool(attempt_viols(g3))))

    # GenTrace: a differing digest for the same key
    wd = os.path.join(workdir(), "selftest-gen")
    os.makedirs(wd, exist_ok=True)
    def gentrace(evs):
        p = os.path.join(wd, "t.ndjson")
        with open(p, "w") as f:
            for e in evs:
                f.write(json.dumps(e) + "\n")
        cmd = ["java", "-cp", TLA_JAR, "tlc2.TLC", "-workers", "1", "-metadir", os.path.join(wd, "meta"), "-cleanup", "-noGenerateSpecTE",
               "-config", os.path.join(SPEC, "GenTrace.cfg"), os.path.join(SPEC, "GenTrace.tla")]
        r = subprocess.run(cmd, cwd=SPEC, env=dict(ENV_BASE, TRACE=p), capture_output=True, text=True)
        return "No error has been found" in r.stdout
    e1 = {"def": "a", "cfg": "tc", "out": "1", "graph": "g", "strip": "s", "pid": 1, "thread": 0, "panic": ""}
    results.append(("GenTrace accepts equal digests", gentrace([e1, dict(e1, pid=2), dict(e1, cfg="sm", out="2")])))
    results.append(("GenTrace rejects a differing digest", not gentrace([e1, dict(e1, pid=2, out="x")])))

    # Attr.tla: the tokenizer model with the old behaviour does not refine the grammar
    src = open(os.path.join(SPEC, "Attr.tla")).read().replace("GroupEatsComma == TRUE", "GroupEatsComma == FALSE").replace("MODULE Attr", "MODULE AttrOld")
    with open(os.path.join(wd, "AttrOld.tla"), "w") as f:
        f.write(src)
    with open(os.path.join(wd, "AttrOld.cfg"), "w") as f:
        f.write(open(os.path.join(SPEC, "Attr.cfg")).read())
    r = subprocess.run(["java", "-cp", TLA_JAR, "tlc2.TLC", "-workers", "2", "-metadir", os.path.join(wd, "meta2"), "-cleanup", "-noGenerateSpecTE", "-config", "AttrOld.cfg", "AttrOld.tla"],
                       cwd=wd, env=ENV_BASE, capture_output=True, text=True)
    results.append(("Attr.tla: a tokenizer that does not consume the comma after a group violates Refines", "Invariant Refines is violated" in r.stdout))

    # EdgeImpl.tla: an algorithm that folds ranges two bytes apart (instead of one) into one comparison is not exact
    src = open(os.path.join(SPEC, "EdgeImpl.tla")).read().replace("Append(@.except, r[1] - 1)", "Append(@.except, r[1])").replace("MODULE EdgeImpl", "MODULE EdgeImplBad")
    with open(os.path.join(wd, "EdgeImplBad.tla"), "w") as f:
        f.write(src)
    with open(os.path.join(wd, "EdgeImplBad.cfg"), "w") as f:
        f.write("SPECIFICATION Spec\nCHECK_DEADLOCK FALSE\nINVARIANTS\n  ClassOk\n")
    r = subprocess.run(["java", "-cp", TLA_JAR, "tlc2.TLC", "-workers", "2", "-metadir", os.path.join(wd, "meta3"), "-cleanup", "-noGenerateSpecTE", "-config", "EdgeImplBad.cfg", "EdgeImplBad.tla"],
                       cwd=wd, env=dict(ENV_BASE, FAM="small", MAXRANGES="2"), capture_output=True, text=True)
    results.append(("EdgeImpl.tla: recording the wrong byte as the exception of a folded range violates CmpExact (ClassOk)", "Invariant ClassOk is violated" in r.stdout))
    src = open(os.path.join(SPEC, "EdgeImpl.tla")).read().replace("/\\ r[2] + 1 < q[1]", "/\\ r[2] + 2 < q[1]").replace("MODULE EdgeImpl", "MODULE EdgeImplBad2")
    with open(os.path.join(wd, "EdgeImplBad2.tla"), "w") as f:
        f.write(src)
    with open(os.path.join(wd, "EdgeImplBad2.cfg"), "w") as f:
        f.write("SPECIFICATION Spec\nCHECK_DEADLOCK FALSE\nINVARIANTS\n  StateOk\n")
    r = subprocess.run(["java", "-cp", TLA_JAR, "tlc2.TLC", "-workers", "2", "-metadir", os.path.join(wd, "meta4"), "-cleanup", "-noGenerateSpecTE", "-config", "EdgeImplBad2.cfg", "EdgeImplBad2.tla"],
                       cwd=wd, env=dict(ENV_BASE, FAM="small", MAXRANGES="2"), capture_output=True, text=True)
    results.append(("EdgeImpl.tla: a can_error that overlooks a gap of one byte violates CanErrorExact (StateOk)", "Invariant StateOk is violated" in r.stdout))
    # Cli.tla: a stripping rule that removes attributes by PREFIX (token_kind, logos_ext go too) is not what KeepIsExact states
    src = open(os.path.join(SPEC, "Cli.tla")).read().replace('IsLogosAttr(a) == a \\in {"logos", "token", "regex"}', 'IsLogosAttr(a) == a \\in {"logos", "token", "regex"}\nDrops(a) == a \\in {"logos", "token", "regex", "token_kind", "logos_ext"}')
    src = src.replace("(IF IsLogosAttr(Head(s)) THEN <<>> ELSE <<Head(s)>>) \\o KeepAttrs(Tail(s))", "(IF Drops(Head(s)) THEN <<>> ELSE <<Head(s)>>) \\o KeepAttrs(Tail(s))").replace("MODULE Cli", "MODULE CliBad")
    with open(os.path.join(wd, "CliBad.tla"), "w") as f:
        f.write(src)
    with open(os.path.join(wd, "CliBad.cfg"), "w") as f:
        f.write("SPECIFICATION Spec\nCHECK_DEADLOCK FALSE\n")
    r = subprocess.run(["java", "-cp", TLA_JAR, "tlc2.TLC", "-workers", "2", "-metadir", os.path.join(wd, "meta5"), "-cleanup", "-noGenerateSpecTE", "-config", "CliBad.cfg", "CliBad.tla"],
                       cwd=wd, env=dict(ENV_BASE, MAXOPS="1"), capture_output=True, text=True)
    results.append(("Cli.tla: a rule that strips attributes by name prefix violates KeepIsExact (ASSUME)", "Assumption" in r.stdout and "is false" in r.stdout))
    ok = True
    for name, good in results:
        print("%s  %s" % ("ok  " if good else "FAIL", name))
        ok = ok and good
    return ok
