"""Engine for C13: Callbacks.tla + replay on the compiled lexers."""
import json
import os
import random
import time

from lexrun import choose_chars
from pipeline import ToolError, build_subjects, capture, harness_hash, log, run_subject, run_tlc, sha, tlc_records, workdir


def A(kind, pat, **kw):
    a = {"kind": kind, "pat": {"s": pat} if isinstance(pat, str) else {"b": list(pat)}}
    a.update(kw)
    return a


def var(name, attrs, field=None):
    return {"name": name, "attrs": attrs, "field": field}


ANY = {
    "any_tok": "|lex| { let (sel, _len) = crate::cb::note(lex); if sel %% 2 == 0 { @E@::%s } else { @E@::Alt } }",
    "any_res": "|lex| { let (sel, _len) = crate::cb::note(lex); let r: Result<@E@, u8> = match sel { 0 => Ok(@E@::%s), 1 => Ok(@E@::Alt), _ => Err(sel) }; r }",
    "any_filter": "|lex| { let (sel, _len) = crate::cb::note(lex); match sel { 0 => logos::Filter::Emit(@E@::%s), 2 => logos::Filter::Emit(@E@::Alt), _ => logos::Filter::Skip } }",
    "any_fr": "|lex| { let (sel, _len) = crate::cb::note(lex); let r: logos::FilterResult<@E@, u8> = match sel { 0 => logos::FilterResult::Emit(@E@::%s), 1 => logos::FilterResult::Emit(@E@::Alt), 2 => logos::FilterResult::Skip, _ => logos::FilterResult::Error(sel) }; r }",
}


def anyv(name, pat, kind):
    return var(name, [A("regex", pat, cbk=kind, cb=ANY[kind] % name)])


def cb_corpus():
    E1 = ["error = crate::cb::E"]
    E2 = ["error(crate::cb::E, callback = |_lex| crate::cb::E::FromCb)"]
    D = []
    D.append({"id": "cb1", "utf8": True, "logos": E1, "tags": ["role:cb"], "subs": [], "skips": [A("skip", " ")],
              "vars": [var("W", [A("regex", "[a-z]+", cbk="unit_bool")]), var("N", [A("regex", "[0-9]+", cbk="val_t")], "u32"),
                       var("M", [A("regex", "-+", cbk="unit_res_skip")]), var("Q", [A("regex", "=+", cbk="val_fr")], "u32")]})
    D.append({"id": "cb2", "utf8": True, "logos": E2, "tags": ["role:cb"], "subs": [], "skips": [A("skip", " +", cbk="skip_res_unit")],
              "vars": [var("W", [A("regex", "[a-z]+", cbk="val_opt")], "u32"), var("N", [A("regex", "[0-9]+", cbk="val_res")], "u32"),
                       var("P", [A("regex", "[.]+", cbk="unit_filter")])]})
    D.append({"id": "cb3", "utf8": True, "logos": E1, "tags": ["role:cb"], "subs": [], "skips": [A("skip", "_", cbk="skip_skip")],
              "vars": [var("Aa", [A("regex", "a+", cbk="val_bump")], "u32"), var("L", [A("regex", "[b-z]", cbk="unit_unit")]),
                       var("Ee", [A("token", "é", cbk="val_filter")], "u32")]})
    D.append({"id": "cb4", "utf8": True, "logos": E2, "tags": ["role:cb"], "subs": [], "skips": [],
              "vars": [anyv("W", "[a-z]+", "any_tok"), anyv("N", "[0-9]+", "any_res"), anyv("M", "-+", "any_filter"), anyv("Q", "=+", "any_fr"),
                       var("Alt", [])]})
    D.append({"id": "cb5", "utf8": False, "logos": E1, "tags": ["role:cb"], "subs": [], "skips": [A("skip", list(b" "), cbk="skip_res_skip")],
              "vars": [var("W", [A("regex", list(b"[a-z]+"), cbk="val_bump")], "u32"), var("H", [A("regex", list(rb"[\x80-\xff]+"), cbk="unit_bool")])]})
    D.append({"id": "cb6", "utf8": True, "logos": E1, "tags": ["role:cb"], "subs": [], "skips": [],
              "vars": [var("Ws", [A("regex", " +", cbk="unit_skip")]), var("W", [A("regex", "[a-z]+", cbk="unit_unit")]), var("N", [A("regex", "[0-9]+", cbk="val_t")], "u32")]})
    D.append({"id": "cb6t", "utf8": True, "logos": E1, "tags": ["role:cb", "twin:cb6"], "subs": [], "skips": [A("skip", " +")],
              "vars": [var("W", [A("regex", "[a-z]+", cbk="unit_unit")]), var("N", [A("regex", "[0-9]+", cbk="val_t")], "u32")]})
    D.append({"id": "cb7", "utf8": True, "logos": E2, "tags": ["role:cb"], "subs": [], "skips": [],
              "vars": [var("X", [A("regex", "x+", cbk="val_filter")], "u32"), var("Y", [A("regex", "x+y", cbk="val_opt")], "u32"), var("Z", [A("token", "xx", cbk="unit_bool", prio=20)])]})
    D.append({"id": "cb8", "utf8": True, "logos": E1, "tags": ["role:cb"], "subs": [], "skips": [A("skip", " ")],
              "vars": [var("P", [A("regex", "p+", cbk="val_t_paren", cb="|lex| (crate::cb::val_t(lex)) + 100")], "u32"),
                       var("Q", [A("regex", "q+", cbk="val_t_brace", cb="|lex| { crate::cb::val_t(lex) } + 200")], "u32"),
                       var("S", [A("regex", "s+", cbk="unit_bool_and", cb="|lex| (crate::cb::unit_bool(lex)) && false")]),
                       var("T", [A("regex", "t+", cbk="unit_bool_or", cb="|lex| { crate::cb::unit_bool(lex) } || true")])]})
    D.append({"id": "cb9", "utf8": True, "logos": E1, "tags": ["role:cb"], "subs": [], "skips": [],
              "vars": [var("R", [A("regex", "r+", cbk="val_t_index", cb="|lex| [crate::cb::val_t(lex), 7][0] + 300")], "u32"), var("W", [A("regex", "[a-q]", cbk="unit_unit")])]})
    D.append({"id": "cb10", "utf8": True, "logos": E1, "tags": ["role:cb"], "subs": [], "skips": [A("skip", " ")],
              "vars": [var("U", [A("regex", "u+", cbk="val_t_tuple", cb="|lex| (crate::cb::val_t(lex), 7u8)")], "(u32, u8)"),
                       var("M", [A("regex", "m+", cbk="val_t_match", cb="|lex| match crate::cb::val_t(lex) { n => n } + 400")], "u32"),
                       var("I", [A("regex", "i+", cbk="val_t_if", cb="|lex| if true { crate::cb::val_t(lex) } else { 0 } + 500")], "u32"),
                       var("C", [A("regex", "c+", cbk="val_t_mcall", cb="|lex| match crate::cb::val_t(lex) { n => n }.wrapping_add(600)")], "u32")]})
    # labelled callbacks whose last path segment is `skip`, `emit`, `filter`, `error`: only the function decides
    D.append({"id": "cb11", "utf8": True, "logos": E1, "tags": ["role:cb"], "subs": [], "skips": [A("skip", "_+", cbk="skip_res_unit", cb="crate::cb::skipping::skip")],
              "vars": [var("B", [A("regex", "b+", cbk="unit_bool", cb="crate::cb::named::skip")]),
                       var("V", [A("regex", "v+", cbk="val_t", cb="crate::cb::valued::skip")], "u32"),
                       var("W", [A("regex", "[c-e]+", cbk="unit_unit")])]})
    D.append({"id": "cb12", "utf8": True, "logos": E2, "tags": ["role:cb"], "subs": [], "skips": [],
              "vars": [var("S", [A("regex", "s+", cbk="unit_skip", cb="crate::cb::named::emit")]),
                       var("F", [A("regex", "f+", cbk="unit_unit", cb="crate::cb::named::filter")]),
                       var("O", [A("regex", "o+", cbk="val_opt", cb="crate::cb::valued::error")], "u32")]})
    # bump inside the callback, then every kind of decision (emit, Err(default) through the error callback, Err(e), skip),
    # also from the callback of a skip pattern; str and bytes
    D.append({"id": "cb13", "utf8": True, "logos": E2, "tags": ["role:cb"], "subs": [], "skips": [A("skip", "_", cbk="skipcb_bump")],
              "vars": [var("S", [A("regex", "s+", cbk="bump_skip")]), var("B", [A("regex", "b+", cbk="bump_bool")]),
                       var("R", [A("regex", "r+", cbk="bump_res")], "u32"), var("F", [A("regex", "f+", cbk="bump_filter")])]})
    D.append({"id": "cb14", "utf8": False, "logos": E1, "tags": ["role:cb"], "subs": [], "skips": [A("skip", list(b"_+"), cbk="skipcb_bump")],
              "vars": [var("S", [A("regex", list(b"s"), cbk="bump_skip")]), var("B", [A("regex", list(b"b+"), cbk="bump_bool")]),
                       var("R", [A("regex", list(rb"[r\xfe]+"), cbk="bump_res")], "u32")]})
    return D


def cb_run(tier, seed, cfgs):
    t0 = time.time()
    defs = cb_corpus()
    defs_path, metas, capdir = capture(defs, "cb")
    tla_defs = [json.loads(l) for l in open(defs_path)]
    rng = random.Random(seed + 13)
    maxlen = 5 if tier == "quick" else 6
    nchars = 5 if tier == "quick" else 6
    by_id = {m["id"]: m for m in metas}
    char_bytes = {}
    panic_findings = []
    for td, m in zip(tla_defs, metas):
        if m["panic"]:
            # a documented callback form on which the derive fails altogether: reported, the definition is left out of the replay
            panic_findings.append({"def": m["id"], "cfg": "derive", "input": "", "why": "the derive fails on a documented callback form: %s" % m["panic"][:300], "expected": None, "got": None, "src": m["src"]})
            td["chars"] = []
            continue
        if not m["accepted"]:
            raise ToolError("callback definition rejected: %s %s" % (m["id"], m["errors"]))
        td["errcb"] = any("callback" in l for l in m["def"]["logos"])
        td["twin"] = 0
        # every pattern of the definition needs a character of its own in the alphabet (plus one multi-byte and one
        # "other" character): a callback kind whose pattern never matches is not exercised at all
        n_pats = len(m["def"]["skips"]) + sum(len(v["attrs"]) for v in m["def"]["vars"])
        cs = choose_chars(td, m, min(7, max(nchars, n_pats + 2)), rng)
        td["chars"] = [c[0] for c in cs]
        char_bytes[td["idx"]] = [c[1] for c in cs]
    for td, m in zip(tla_defs, metas):
        tw = [t for t in m["tags"] if t.startswith("twin:")]
        if tw:
            o = by_id[tw[0][5:]]
            otd = tla_defs[o["idx"] - 1]
            b2b = {}
            for bi, ranges in enumerate(m["blocks"]):
                for lo, hi in ranges:
                    for b in range(lo, hi + 1):
                        b2b[b] = bi + 1
            cb = char_bytes[otd["idx"]]
            char_bytes[td["idx"]] = cb
            td["chars"] = [[b2b[x] for x in c] for c in cb]
            otd["twin"] = td["idx"]
    blob = "\n".join(json.dumps(td) for td in tla_defs) + "\n"
    key = sha(blob, harness_hash(), tier, str(seed), ",".join(cfgs))[:16]
    cache = os.path.join(workdir(), "cb-%s.json" % key)
    if os.path.exists(cache):
        return json.load(open(cache))
    p = os.path.join(capdir, "defs_cb_%s.ndjson" % key)
    with open(p, "w") as f:
        f.write(blob)
    res = run_tlc("Callbacks.tla", "Callbacks.cfg", {"DEFS": p, "MAXLEN": str(maxlen), "PMAX": str(maxlen - 1 if tier == "quick" else maxlen)}, workers=8, metaname="cb", xss="512m", timeout=6000)
    if not res["ok"]:
        raise ToolError("Callbacks.tla: SkipTransparent violated at specification level:\n" + res["out"][-3000:])
    runs = [r[2] for r in tlc_records(res) if r[0] == "CBRUN"]
    log("[cb] TLC %d distinct states, %d behaviours, %.1fs" % (res["distinct"], len(runs), res["wall"]))
    bins = build_subjects(metas, cfgs, "cb")
    meta_by_idx = {m["idx"]: m for m in metas}
    # vacuity guard: every variant name of every callback definition must occur in some expected item (or the
    # definition's callbacks skip / fail always), otherwise a callback kind was never exercised
    seen_names = {}
    for r in runs:
        for it in r["items"]:
            if it[0] == "ok":
                seen_names.setdefault(r["d"], set()).add(it[1].split("(")[0])
    for td, m in zip(tla_defs, metas):
        if m["panic"] or not td.get("chars"):
            continue
        want = {v["name"] for v in m["def"]["vars"] if v["attrs"] and not any(a.get("cbk") in ("unit_skip", "unit_res_skip", "unit_bool_and", "bump_skip") for a in v["attrs"])}
        missing = want - seen_names.get(td["idx"], set())
        if missing:
            raise ToolError("Callbacks.tla: no enumerated behaviour of %s ever emits %s (alphabet %s)" % (m["id"], sorted(missing), td["chars"]))
    reqs = []
    for r in runs:
        data = []
        for c in r["chars"]:
            data.extend(char_bytes[r["d"]][c - 1])
        reqs.append(("%d %s %s" % (r["d"], "p" if r.get("partial") else "f", bytes(data).hex()), r, bytes(data).hex()))
    findings = list(panic_findings)
    for c in cfgs:
        reps = run_subject(bins[c], [q[0] for q in reqs], timeout=1800)
        for (line, r, hexd), rep in zip(reqs, reps):
            m = meta_by_idx[r["d"]]
            why = None
            if "items" not in rep:
                why = "no result: %s" % (str(rep)[:200],)
            else:
                exp = [list(x) for x in r["items"]]
                got = [[it[0], it[1] if it[0] == "ok" or it[1] != "()" else "Default", it[2], it[3]] for it in rep["items"]] + [["none", "", rep["fin"][0], rep["fin"][1]]]
                if exp != got:
                    k = next((i for i in range(min(len(exp), len(got))) if exp[i] != got[i]), min(len(exp), len(got)))
                    why = "item %d: expected %s got %s" % (k, exp[k] if k < len(exp) else None, got[k] if k < len(got) else None)
                else:
                    elog = [list(x) for x in r["log"]]
                    glog = [x[:2] for x in rep.get("cbs", [])]
                    if elog != glog:
                        why = "callback invocations: expected %s got %s" % (elog, glog)
                    elif any(not x[2] for x in rep.get("cbs", [])):
                        why = "a callback observed slice() != source[span()]"
            if why:
                findings.append({"def": m["id"], "cfg": c, "input": hexd + (":p" if r.get("partial") else ""), "why": why + (" (partial lexer)" if r.get("partial") else ""), "expected": r["items"], "got": rep.get("items"), "src": m["src"]})
    samples = [{"def": meta_by_idx[r["d"]]["id"], "input_hex": h, "partial": r.get("partial", False), "expected_items": r["items"], "expected_callback_invocations": r["log"]} for (l, r, h) in reqs[:: max(1, len(reqs) // 5)][:5]]
    out = {"tlc": {k: res[k] for k in ("states", "distinct", "wall")}, "behaviours": len(runs), "runs": len(runs) * len(cfgs), "cfgs": cfgs, "maxlen": maxlen,
           "findings": findings[:2000], "n_findings": len(findings), "samples": samples, "wall": time.time() - t0, "defs": len(metas)}
    with open(cache, "w") as f:
        json.dump(out, f)
    return out
