//! Callbacks of the C13 table.  Every decision is a pure function of the matched text:
//! `sel(lex) = (slice length + first byte) % 4`.
#![allow(dead_code)]
use logos::{Filter, FilterResult, Lexer, Logos, Skip, Source};

#[derive(Debug, Clone, PartialEq, Default)]
pub enum E {
    #[default]
    Default,
    Custom(u8),
    FromCb,
}

impl From<u8> for E {
    fn from(x: u8) -> E {
        E::Custom(x)
    }
}

pub fn sel_of(first: u8, len: usize) -> u8 {
    ((len + first as usize) % 4) as u8
}
