//! Callbacks of the C13 table.  Every decision is a pure function of the matched text:
//! `sel = match length % 4`.  Every callback first records its invocation (span, and whether
//! slice() equals source[span()]) in a thread-local log that the driver prints.
#![allow(dead_code)]
use std::cell::RefCell;

use logos::{Filter, FilterResult, Lexer, Logos, Skip};

use crate::Bytes;

#[derive(Debug, Clone, PartialEq, Default)]
pub enum E {
    #[default]
    Default,
    Custom(u8),
    FromCb,
}

impl From<u8> for E {
    fn from(x: u8) -> E {
        E::Custom(x)
    }
}

thread_local! {
    pub static LOG: RefCell<Vec<(usize, usize, bool)>> = const { RefCell::new(Vec::new()) };
}

pub fn take_log() -> Vec<(usize, usize, bool)> {
    LOG.with(|l| std::mem::take(&mut *l.borrow_mut()))
}

/// Record the invocation and return (sel, len).
pub fn note<'s, T>(lex: &mut Lexer<'s, T>) -> (u8, u32)
where
    T: Logos<'s>,
    T::Source: Bytes,
    <T::Source as logos::Source>::Slice<'s>: Bytes,
{
    let sp = lex.span();
    let all = lex.source().bytes_of();
    let ok = sp.start <= sp.end && sp.end <= all.len() && lex.slice().bytes_of() == &all[sp.clone()];
    LOG.with(|l| l.borrow_mut().push((sp.start, sp.end, ok)));
    let len = sp.end - sp.start;
    ((len % 4) as u8, len as u32)
}

macro_rules! cb {
    ($name:ident -> $ret:ty, |$sel:ident, $len:ident, $lex:ident| $body:expr) => {
        pub fn $name<'s, T>($lex: &mut Lexer<'s, T>) -> $ret
        where
            T: Logos<'s>,
            T::Source: Bytes,
            <T::Source as logos::Source>::Slice<'s>: Bytes,
        {
            let ($sel, $len) = note($lex);
            let _ = ($sel, $len);
            $body
        }
    };
}

// unit variants
cb!(unit_unit -> (), |sel, len, lex| ());
cb!(unit_bool -> bool, |sel, len, lex| sel % 2 == 0);
cb!(unit_skip -> Skip, |sel, len, lex| Skip);
cb!(unit_res_skip -> Result<Skip, u8>, |sel, len, lex| if sel < 2 { Ok(Skip) } else { Err(sel) });
cb!(unit_filter -> Filter<()>, |sel, len, lex| if sel % 2 == 0 { Filter::Emit(()) } else { Filter::Skip });
// value variants (field type u32)
cb!(val_t -> u32, |sel, len, lex| len);
cb!(val_opt -> Option<u32>, |sel, len, lex| if sel % 2 == 0 { Some(len) } else { None });
cb!(val_res -> Result<u32, u8>, |sel, len, lex| if sel < 2 { Ok(len) } else { Err(sel) });
cb!(val_filter -> Filter<u32>, |sel, len, lex| if sel % 2 == 0 { Filter::Emit(len) } else { Filter::Skip });
cb!(val_fr -> FilterResult<u32, u8>, |sel, len, lex| match sel {
    0 | 1 => FilterResult::Emit(len),
    2 => FilterResult::Skip,
    _ => FilterResult::Error(sel),
});
// skip patterns
cb!(skip_unit -> (), |sel, len, lex| ());
cb!(skip_skip -> Skip, |sel, len, lex| Skip);
cb!(skip_res_unit -> Result<(), u8>, |sel, len, lex| if sel < 3 { Ok(()) } else { Err(sel) });
cb!(skip_res_skip -> Result<Skip, u8>, |sel, len, lex| if sel < 3 { Ok(Skip) } else { Err(sel) });

/// bump one more character when there is one: the bumped bytes belong to the current item
pub fn bump1<'s, T>(lex: &mut Lexer<'s, T>)
where
    T: Logos<'s>,
    T::Source: Bytes,
    <T::Source as logos::Source>::Slice<'s>: Bytes,
{
    let rem = lex.remainder();
    let rb = rem.bytes_of();
    if !rb.is_empty() {
        let mut n = 1;
        while lex.source().textual() && n < rb.len() && (rb[n] & 0xC0) == 0x80 {
            n += 1;
        }
        lex.bump(n);
    }
}

pub fn val_bump<'s, T>(lex: &mut Lexer<'s, T>) -> u32
where
    T: Logos<'s>,
    T::Source: Bytes,
    <T::Source as logos::Source>::Slice<'s>: Bytes,
{
    let (_sel, len) = note(lex);
    bump1(lex);
    len
}

// bump, THEN decide: the bumped bytes belong to the item whatever the decision is
cb!(bump_skip -> Skip, |sel, len, lex| {
    bump1(lex);
    Skip
});
cb!(bump_bool -> bool, |sel, len, lex| {
    bump1(lex);
    sel % 2 == 0
});
cb!(bump_res -> Result<u32, u8>, |sel, len, lex| {
    bump1(lex);
    if sel < 2 { Ok(len) } else { Err(sel) }
});
cb!(bump_filter -> Filter<()>, |sel, len, lex| {
    bump1(lex);
    if sel % 2 == 0 { Filter::Emit(()) } else { Filter::Skip }
});
cb!(skipcb_bump -> (), |sel, len, lex| bump1(lex));

/// Callbacks that merely happen to be called `skip` (like `logos::skip`), `emit`, `filter`: a user's function is
/// called whatever its name is.
pub mod named {
    use super::*;
    cb!(skip -> bool, |sel, len, lex| sel % 2 == 0);
    cb!(emit -> Skip, |sel, len, lex| Skip);
    cb!(filter -> (), |sel, len, lex| ());
}
pub mod valued {
    use super::*;
    cb!(skip -> u32, |sel, len, lex| len);
    cb!(error -> Option<u32>, |sel, len, lex| if sel % 2 == 0 { Some(len) } else { None });
}
pub mod skipping {
    use super::*;
    cb!(skip -> Result<(), u8>, |sel, len, lex| if sel < 3 { Ok(()) } else { Err(sel) });
}
