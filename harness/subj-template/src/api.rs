//! API histories (C14, C15): a script interpreter over two lexer slots for a pair of token
//! types A and B sharing the source type.
//!
//! script: ops separated by ';'
//!   n<i>        next() on slot i
//!   b<i>:<n>    bump(n) inside catch_unwind; n decimal or MAX-k
//!   c<i>:<j>    clone slot i into slot j
//!   m<i>        morph slot i to the other token type
//!   s<i>        wrap slot i with spanned()
//!   f<i>        a fresh lexer of type A over the SECOND buffer in slot i
//!   k<i>:<j>    slots[j].clone_from(&slots[i])  (Clone::clone_from; same kind in both slots)
//! After every op the observation of both slots is printed:
//!   [kind, spanned, start, end, extras, slice_ok, remainder_ok, buffer]
//! buffer = which of the two buffers source() refers to (1, 2; 0 = neither); slice_ok / remainder_ok compare
//! slice() / remainder() with THAT buffer.

#[macro_export]
macro_rules! api_pair {
    ($fname:ident, $A:ty, $B:ty, $mk:expr) => {
        pub fn $fname<'x>(bytes: &'x [u8], bytes2: &'x [u8], partial: bool, script: &str, out: &mut String) {
            use logos::{Lexer, Logos, SpannedIter};
            use std::fmt::Write as _;
            use std::panic::{catch_unwind, AssertUnwindSafe};
            use $crate::Bytes;
            enum Slot<'s> {
                Empty,
                A(Lexer<'s, $A>),
                B(Lexer<'s, $B>),
                SA(SpannedIter<'s, $A>),
                SB(SpannedIter<'s, $B>),
            }
            let Some(src) = $mk(bytes) else {
                out.push_str("\"badutf8\":true");
                return;
            };
            let Some(src2) = $mk(bytes2) else {
                out.push_str("\"badutf8\":true");
                return;
            };
            fn parse_n(s: &str) -> usize {
                if let Some(k) = s.strip_prefix("MAX-") {
                    usize::MAX - k.parse::<usize>().unwrap()
                } else {
                    s.parse().unwrap()
                }
            }
            macro_rules! obs1 {
                ($l:expr, $kind:expr, $sp:expr, $out:expr) => {{
                    let l = $l;
                    let span = l.span();
                    // which buffer does the lexer read?  (identity of source(), not its content)
                    let sp_ptr = l.source().bytes_of().as_ptr();
                    let (buf, bytes): (u8, &[u8]) = if std::ptr::eq(sp_ptr, bytes.as_ptr()) && l.source().bytes_of().len() == bytes.len() {
                        (1, bytes)
                    } else if std::ptr::eq(sp_ptr, bytes2.as_ptr()) && l.source().bytes_of().len() == bytes2.len() {
                        (2, bytes2)
                    } else {
                        (0, bytes)
                    };
                    let valid = span.start <= span.end && span.end <= bytes.len();
                    // slice()/remainder() are only called when the span is in range: with an
                    // out-of-range span the default build would be undefined behaviour, and an
                    // out-of-range span is already the violation.
                    let (sl, rm) = if valid {
                        let r = catch_unwind(AssertUnwindSafe(|| {
                            (l.slice().bytes_of() == &bytes[span.clone()], l.remainder().bytes_of() == &bytes[span.end..])
                        }));
                        r.unwrap_or((false, false))
                    } else {
                        (false, false)
                    };
                    let _ = write!($out, "[\"{}\",{},{},{},{},{},{},{}]", $kind, $sp, span.start, span.end, l.extras, sl, rm, buf);
                }};
            }
            fn item<T: std::fmt::Debug, E: std::fmt::Debug>(it: Option<Result<T, E>>, span: std::ops::Range<usize>, out: &mut String) {
                match it {
                    Some(Ok(t)) => {
                        let name = format!("{t:?}");
                        let _ = write!(out, "[\"ok\",\"{}\",{},{}]", name.split('(').next().unwrap(), span.start, span.end);
                    }
                    Some(Err(_)) => {
                        let _ = write!(out, "[\"err\",\"\",{},{}]", span.start, span.end);
                    }
                    None => {
                        let _ = write!(out, "[\"none\",\"\",{},{}]", span.start, span.end);
                    }
                }
            }
            fn clone_slot<'s>(s: &Slot<'s>) -> Slot<'s> {
                match s {
                    Slot::A(l) => Slot::A(l.clone()),
                    Slot::B(l) => Slot::B(l.clone()),
                    Slot::SA(l) => Slot::SA(l.clone()),
                    Slot::SB(l) => Slot::SB(l.clone()),
                    Slot::Empty => Slot::Empty,
                }
            }
            let mut slots: [Slot<'x>; 2] = [Slot::Empty, Slot::Empty];
            slots[0] = if partial { Slot::A(Lexer::new_partial(src)) } else { Slot::A(Lexer::new(src)) };
            let apply = |slots: &mut [Slot<'x>; 2], op: &str, out: &mut String| {
                let kind = op.as_bytes()[0];
                let rest = &op[1..];
                let (i, arg) = match rest.split_once(':') {
                    Some((a, b)) => (a.parse::<usize>().unwrap(), Some(b)),
                    None => (rest.parse::<usize>().unwrap(), None),
                };
                out.push_str("{\"r\":");
                match kind {
                    b'n' => match &mut slots[i] {
                        Slot::A(l) => {
                            let it = l.next();
                            item(it, l.span(), out)
                        }
                        Slot::B(l) => {
                            let it = l.next();
                            item(it, l.span(), out)
                        }
                        Slot::SA(sp) => match sp.next() {
                            Some((t, span)) => {
                                // spanned() must pair the item with the span of manual iteration
                                let same = span == sp.span();
                                item(Some(t), if same { span } else { 9999..9999 }, out)
                            }
                            None => item::<$A, ()>(None, sp.span(), out),
                        },
                        Slot::SB(sp) => match sp.next() {
                            Some((t, span)) => {
                                let same = span == sp.span();
                                item(Some(t), if same { span } else { 9999..9999 }, out)
                            }
                            None => item::<$B, ()>(None, sp.span(), out),
                        },
                        Slot::Empty => out.push_str("[\"empty\",\"\",0,0]"),
                    },
                    b'b' => {
                        let n = parse_n(arg.unwrap());
                        let r = match &mut slots[i] {
                            Slot::A(l) => catch_unwind(AssertUnwindSafe(|| l.bump(n))).is_ok(),
                            Slot::B(l) => catch_unwind(AssertUnwindSafe(|| l.bump(n))).is_ok(),
                            Slot::SA(l) => catch_unwind(AssertUnwindSafe(|| l.bump(n))).is_ok(),
                            Slot::SB(l) => catch_unwind(AssertUnwindSafe(|| l.bump(n))).is_ok(),
                            Slot::Empty => true,
                        };
                        let _ = write!(out, "[\"{}\",\"\",0,0]", if r { "ok" } else { "panic" });
                    }
                    b'c' => {
                        let j: usize = arg.unwrap().parse().unwrap();
                        let c = match &slots[i] {
                            Slot::A(l) => Slot::A(l.clone()),
                            Slot::B(l) => Slot::B(l.clone()),
                            Slot::SA(l) => Slot::SA(l.clone()),
                            Slot::SB(l) => Slot::SB(l.clone()),
                            Slot::Empty => Slot::Empty,
                        };
                        slots[j] = c;
                        out.push_str("[\"ok\",\"\",0,0]");
                    }
                    b'm' => {
                        let old = std::mem::replace(&mut slots[i], Slot::Empty);
                        slots[i] = match old {
                            Slot::A(l) => Slot::B(l.morph()),
                            Slot::B(l) => Slot::A(l.morph()),
                            other => other,
                        };
                        out.push_str("[\"ok\",\"\",0,0]");
                    }
                    b'f' => {
                        slots[i] = if partial { Slot::A(Lexer::new_partial(src2)) } else { Slot::A(Lexer::new(src2)) };
                        out.push_str("[\"ok\",\"\",0,0]");
                    }
                    b'k' => {
                        let j: usize = arg.unwrap().parse().unwrap();
                        let from = clone_slot(&slots[i]);
                        match (&mut slots[j], &from) {
                            (Slot::A(a), Slot::A(b)) => a.clone_from(b),
                            (Slot::B(a), Slot::B(b)) => a.clone_from(b),
                            (Slot::SA(a), Slot::SA(b)) => a.clone_from(b),
                            (Slot::SB(a), Slot::SB(b)) => a.clone_from(b),
                            _ => {}
                        }
                        out.push_str("[\"ok\",\"\",0,0]");
                    }
                    b's' => {
                        let old = std::mem::replace(&mut slots[i], Slot::Empty);
                        slots[i] = match old {
                            Slot::A(l) => Slot::SA(l.spanned()),
                            Slot::B(l) => Slot::SB(l.spanned()),
                            other => other,
                        };
                        out.push_str("[\"ok\",\"\",0,0]");
                    }
                    _ => out.push_str("[\"badop\",\"\",0,0]"),
                }
                out.push_str(",\"obs\":[");
                for (k, s) in slots.iter().enumerate() {
                    if k > 0 {
                        out.push(',');
                    }
                    match s {
                        Slot::A(l) => obs1!(l, "A", false, out),
                        Slot::B(l) => obs1!(l, "B", false, out),
                        Slot::SA(l) => obs1!(&**l, "A", true, out),
                        Slot::SB(l) => obs1!(&**l, "B", true, out),
                        Slot::Empty => out.push_str("[\"-\",false,0,0,0,true,true,1]"),
                    }
                }
                out.push_str("]}");
            };
            out.push_str("\"ops\":[");
            let mut first = true;
            for op in script.split(';').filter(|s| !s.is_empty()) {
                if let Some(list) = op.strip_prefix('P') {
                    // probe: every listed operation is applied to a copy of the current state
                    for cand in list.split('|').filter(|s| !s.is_empty()) {
                        if !first {
                            out.push(',');
                        }
                        first = false;
                        let mut copy = [clone_slot(&slots[0]), clone_slot(&slots[1])];
                        apply(&mut copy, cand, out);
                    }
                    continue;
                }
                if !first {
                    out.push(',');
                }
                first = false;
                apply(&mut slots, op, out);
            }
            out.push(']');
        }
    };
}
