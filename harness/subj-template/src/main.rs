//! Subject driver: the real `#[derive(Logos)]` lexers of a corpus, driven line by line.
//!
//! request : `<def idx> <flags> <hex bytes>`   flags: f = full, p = partial (new_partial),
//!                                             t = also dump the runtime hook events
//!           `S <def idx> <script...>`         API history (see script.rs)
//! reply   : one JSON object per request.
#![allow(dead_code, unused)]
use std::fmt::Debug;
use std::fmt::Write as _;
use std::io::{BufRead, Write};
use std::panic::{catch_unwind, AssertUnwindSafe};

use logos::{Lexer, Logos};

#[macro_use]
mod api;
mod cb;
mod defs;

pub struct Req<'a> {
    pub partial: bool,
    pub trace: bool,
    pub bytes: &'a [u8],
    pub splits: Option<Vec<usize>>,
    pub stack: bool,
    /// stop after this many items (0 = no limit)
    pub max_items: usize,
}

/// item cap per run: a lexer that makes progress yields at most one item per byte
pub const CAP_EXTRA: usize = 16;

/// Bytes of a source or of a slice of it (str and [u8]).
pub trait Bytes {
    fn bytes_of(&self) -> &[u8];
    /// true for str sources (positions must be char boundaries)
    fn textual(&self) -> bool {
        false
    }
}
impl Bytes for str {
    fn bytes_of(&self) -> &[u8] {
        self.as_bytes()
    }
    fn textual(&self) -> bool {
        true
    }
}
impl Bytes for [u8] {
    fn bytes_of(&self) -> &[u8] {
        self
    }
}
impl<'a> Bytes for &'a str {
    fn bytes_of(&self) -> &[u8] {
        self.as_bytes()
    }
}
impl<'a> Bytes for &'a [u8] {
    fn bytes_of(&self) -> &[u8] {
        self
    }
}

fn ev_dump(out: &mut String) {
    let evs = logos::verif::drain();
    for (i, e) in evs.iter().enumerate() {
        if i > 0 {
            out.push(',');
        }
        let _ = write!(out, "[{},{},{},{},{}]", e.kind, e.a, e.b, e.c, e.d);
    }
}

/// Lex `src` to the end (or to the first None in partial mode) and append the reply body.
pub fn run<'s, T>(src: &'s T::Source, req: &Req, out: &mut String)
where
    T: Logos<'s> + Debug,
    T::Extras: Default,
    T::Source: Bytes,
    <T::Source as logos::Source>::Slice<'s>: Bytes,
{
    let all = src.bytes_of();
    let mut badslice = 0usize;
    let mut stack_lo = usize::MAX;
    let mut stack_hi = 0usize;
    let mut nev = 0usize;
    let _ = cb::take_log();
    let mut lex: Lexer<'s, T> = if req.partial {
        Lexer::new_partial(src)
    } else {
        Lexer::new(src)
    };
    out.push_str("\"items\":[");
    let mut n = 0usize;
    let mut capped = false;
    loop {
        if req.trace || req.stack {
            logos::verif::start();
        }
        let item = lex.next();
        let sp = lex.span();
        if req.stack {
            for e in logos::verif::drain() {
                stack_lo = stack_lo.min(e.d);
                stack_hi = stack_hi.max(e.d);
                nev += 1;
            }
        }
        // C04/C14: slice() == source[span()], remainder() == source[span().end..]
        if sp.start <= sp.end && sp.end <= all.len() {
            if lex.slice().bytes_of() != &all[sp.clone()] || lex.remainder().bytes_of() != &all[sp.end..] {
                badslice += 1;
            }
        } else {
            badslice += 1;
        }
        let Some(item) = item else {
            break;
        };
        if n > 0 {
            out.push(',');
        }
        n += 1;
        match item {
            Ok(t) => {
                let name = clean(&format!("{t:?}"));
                let _ = write!(out, "[\"ok\",\"{}\",{},{}", name, sp.start, sp.end);
            }
            Err(e) => {
                let _ = write!(out, "[\"err\",\"{}\",{},{}", clean(&format!("{e:?}")), sp.start, sp.end);
            }
        }
        if req.trace {
            out.push_str(",[");
            ev_dump(out);
            out.push(']');
        }
        out.push(']');
        if n >= all.len() + CAP_EXTRA || (req.max_items > 0 && n >= req.max_items) {
            capped = true;
            break;
        }
    }
    let sp = lex.span();
    let _ = write!(out, "],\"fin\":[{},{}],\"capped\":{},\"badslice\":{}", sp.start, sp.end, capped, badslice);
    if req.stack {
        let _ = write!(out, ",\"stack\":{},\"nev\":{}", stack_hi.saturating_sub(stack_lo.min(stack_hi)), nev);
    }
    if req.trace {
        out.push_str(",\"finev\":[");
        ev_dump(out);
        out.push(']');
        let _ = logos::verif::finish();
    }
    let cbs = cb::take_log();
    if !cbs.is_empty() {
        out.push_str(",\"cbs\":[");
        for (i, (a, b, ok)) in cbs.iter().enumerate() {
            if i > 0 {
                out.push(',');
            }
            let _ = write!(out, "[{},{},{}]", a, b, ok);
        }
        out.push(']');
    }
    // one more call: None must be stable (C03)
    if !capped {
        let again = lex.next().is_none();
        let sp2 = lex.span();
        let _ = write!(out, ",\"again\":[{},{},{}]", again, sp2.start, sp2.end);
    }
}

/// C07 user protocol: partial lexers over growing prefixes, then an ordinary lexer.
pub fn run_chunked<'s, T>(full: &'s [u8], splits: &[usize], is_str: bool, out: &mut String, mk: &dyn Fn(&'s [u8]) -> Option<&'s T::Source>)
where
    T: Logos<'s> + Debug,
    T::Extras: Default,
{
    let mut q = 0usize;
    out.push_str("\"items\":[");
    let mut n = 0usize;
    let mut stages: Vec<usize> = splits.to_vec();
    stages.push(usize::MAX);
    for k in stages {
        let last = k == usize::MAX;
        let k = if last { full.len() } else { k };
        if k < q {
            continue;
        }
        let Some(src) = mk(&full[q..k]) else {
            out.push_str("],\"badutf8\":true");
            return;
        };
        let mut lex: Lexer<'s, T> = if last { Lexer::new(src) } else { Lexer::new_partial(src) };
        let mut guard = 0usize;
        while let Some(item) = lex.next() {
            let sp = lex.span();
            if n > 0 {
                out.push(',');
            }
            n += 1;
            match item {
                Ok(t) => {
                    let name = format!("{t:?}");
                    let name = name.split('(').next().unwrap().to_string();
                    let _ = write!(out, "[\"ok\",\"{}\",{},{}]", name, sp.start + q, sp.end + q);
                }
                Err(e) => {
                    let _ = write!(out, "[\"err\",\"{}\",{},{}]", clean(&format!("{e:?}")), sp.start + q, sp.end + q);
                }
            }
            guard += 1;
            if guard >= full.len() + CAP_EXTRA {
                break;
            }
        }
        q += lex.span().start;
    }
    let _ = write!(out, "],\"fin\":[{},{}]", q, q);
}

pub fn run_str<'s, T>(bytes: &'s [u8], req: &Req, out: &mut String)
where
    T: Logos<'s, Source = str> + Debug,
    T::Extras: Default,
{
    if let Some(splits) = &req.splits {
        return run_chunked::<T>(bytes, splits, true, out, &|b| std::str::from_utf8(b).ok());
    }
    match std::str::from_utf8(bytes) {
        Ok(s) => run::<T>(s, req, out),
        Err(_) => out.push_str("\"badutf8\":true"),
    }
}

pub fn run_bytes<'s, T>(bytes: &'s [u8], req: &Req, out: &mut String)
where
    T: Logos<'s, Source = [u8]> + Debug,
    T::Extras: Default,
{
    if let Some(splits) = &req.splits {
        return run_chunked::<T>(bytes, splits, false, out, &|b| Some(b));
    }
    run::<T>(bytes, req, out)
}

pub fn clean(s: &str) -> String {
    s.chars()
        .map(|c| if c.is_ascii_graphic() && c != '"' && c != '\\' || c == ' ' { c } else { '?' })
        .collect()
}

fn unhex(s: &str) -> Vec<u8> {
    let b = s.as_bytes();
    let mut v = Vec::with_capacity(b.len() / 2);
    let mut i = 0;
    while i + 1 < b.len() {
        let h = (b[i] as char).to_digit(16).unwrap() as u8;
        let l = (b[i + 1] as char).to_digit(16).unwrap() as u8;
        v.push(h * 16 + l);
        i += 2;
    }
    v
}

/// C05: the public `Source::read` on str, [u8] and Deref wrappers.
/// request: `R <kind> <len> <off> <n>`; off may be `MAX-k`.
fn source_read(parts: &mut std::str::Split<char>) -> String {
    use logos::Source;
    let kind = parts.next().unwrap_or("");
    let len: usize = parts.next().unwrap().parse().unwrap();
    let offs = parts.next().unwrap();
    let off: usize = if let Some(k) = offs.strip_prefix("MAX-") {
        usize::MAX - k.parse::<usize>().unwrap()
    } else {
        offs.parse().unwrap()
    };
    let n: usize = parts.next().unwrap().parse().unwrap();
    let data: Vec<u8> = (0..len).map(|i| b'a' + (i % 26) as u8).collect();
    let boxed: Box<[u8]> = data.clone().into_boxed_slice();
    let text: String = String::from_utf8(data.clone()).unwrap();
    let boxed_str: Box<str> = text.clone().into_boxed_str();
    fn show(r: Option<Vec<u8>>) -> String {
        match r {
            Some(v) => format!("\"some\":true,\"bytes\":\"{}\"", v.iter().map(|b| format!("{b:02x}")).collect::<String>()),
            None => "\"some\":false".to_string(),
        }
    }
    macro_rules! rd {
        ($src:expr) => {{
            let src = $src;
            match n {
                0 => src.read::<u8>(off).map(|b| vec![b]),
                1 => src.read::<&[u8; 1]>(off).map(|a| a.to_vec()),
                2 => src.read::<&[u8; 2]>(off).map(|a| a.to_vec()),
                3 => src.read::<&[u8; 3]>(off).map(|a| a.to_vec()),
                4 => src.read::<&[u8; 4]>(off).map(|a| a.to_vec()),
                5 => src.read::<&[u8; 5]>(off).map(|a| a.to_vec()),
                7 => src.read::<&[u8; 7]>(off).map(|a| a.to_vec()),
                8 => src.read::<&[u8; 8]>(off).map(|a| a.to_vec()),
                9 => src.read::<&[u8; 9]>(off).map(|a| a.to_vec()),
                16 => src.read::<&[u8; 16]>(off).map(|a| a.to_vec()),
                32 => src.read::<&[u8; 32]>(off).map(|a| a.to_vec()),
                _ => None,
            }
        }};
    }
    let r = match kind {
        "str" => rd!(&*boxed_str),
        "bytes" => rd!(&*boxed),
        "string" => rd!(&text),
        "vec" => rd!(&data),
        "boxstr" => rd!(&boxed_str),
        _ => None,
    };
    show(r)
}

/// start (ms since program start, +1) of the request being served, 0 when idle
static CUR_START: std::sync::atomic::AtomicU64 = std::sync::atomic::AtomicU64::new(0);
/// a request that takes longer than this is a hang of the code under test: abort, the harness records it as data
const WATCHDOG_MS: u64 = 20_000;

/// C04/C15: the public `Source::is_boundary` / `Source::find_boundary` on str, String and [u8].
/// request: `B <hex of valid UTF-8>`
fn source_boundary(parts: &mut std::str::Split<char>) -> String {
    use logos::Source;
    let bytes = unhex(parts.next().unwrap_or(""));
    let text = String::from_utf8(bytes.clone()).unwrap();
    let n = bytes.len();
    let list = |f: &dyn Fn(usize) -> String, upto: usize| (0..=upto).map(|i| f(i)).collect::<Vec<_>>().join(",");
    let s: &str = &text;
    let isb = list(&|i| s.is_boundary(i).to_string(), n + 2);
    let isb_string = list(&|i| text.is_boundary(i).to_string(), n + 2);
    let find = list(&|i| <str as Source>::find_boundary(s, i).to_string(), n);
    let find_string = list(&|i| text.find_boundary(i).to_string(), n);
    let b: &[u8] = &bytes;
    let isbytes = list(&|i| b.is_boundary(i).to_string(), n + 2);
    let findbytes = list(&|i| <[u8] as Source>::find_boundary(b, i).to_string(), n);
    format!("\"isb\":[{isb}],\"isb_string\":[{isb_string}],\"find\":[{find}],\"find_string\":[{find_string}],\"isbytes\":[{isbytes}],\"findbytes\":[{findbytes}]")
}

fn main() {
    std::panic::set_hook(Box::new(|_| {}));
    let t0 = std::time::Instant::now();
    std::thread::spawn(move || loop {
        std::thread::sleep(std::time::Duration::from_millis(250));
        let s = CUR_START.load(std::sync::atomic::Ordering::Relaxed);
        if s != 0 && (t0.elapsed().as_millis() as u64 + 1).saturating_sub(s) > WATCHDOG_MS {
            eprintln!("watchdog: request exceeded {} ms", WATCHDOG_MS);
            std::process::abort();
        }
    });
    let stdin = std::io::stdin();
    let stdout = std::io::stdout();
    let mut w = std::io::BufWriter::new(stdout.lock());
    for line in stdin.lock().lines() {
        let line = line.unwrap();
        let mut parts = line.split(' ');
        let Some(first) = parts.next() else { continue };
        if first.is_empty() {
            continue;
        }
        CUR_START.store(t0.elapsed().as_millis() as u64 + 1, std::sync::atomic::Ordering::Relaxed);
        let mut out = String::from("{");
        if first == "R" || first == "B" {
            let r = catch_unwind(AssertUnwindSafe(|| if first == "B" { source_boundary(&mut parts) } else { source_read(&mut parts) }));
            match r {
                Ok(b) => out.push_str(&b),
                Err(_) => out.push_str("\"panic\":\"panic\""),
            }
            out.push('}');
            writeln!(w, "{}", out).unwrap();
            w.flush().unwrap();
            CUR_START.store(0, std::sync::atomic::Ordering::Relaxed);
            continue;
        }
        if first == "S" {
            // S <pair idx> <f|p> <hex> <script> [<hex of the second buffer>]
            let pidx: usize = parts.next().unwrap().parse().unwrap();
            let partial = parts.next().unwrap_or("f").contains('p');
            let bytes = unhex(parts.next().unwrap_or(""));
            let boxed: Box<[u8]> = bytes.into_boxed_slice();
            let script = parts.next().unwrap_or("");
            let boxed2: Box<[u8]> = match parts.next() {
                Some(h) => unhex(h).into_boxed_slice(),
                None => boxed.clone(),
            };
            let r = catch_unwind(AssertUnwindSafe(|| {
                let mut b = String::new();
                let known = defs::dispatch_api(pidx, &boxed, &boxed2, partial, script, &mut b);
                (known, b)
            }));
            match r {
                Ok((true, b)) => out.push_str(&b),
                Ok((false, _)) => out.push_str("\"unknown\":true"),
                Err(_) => out.push_str("\"panic\":\"panic outside catch\""),
            }
            out.push('}');
            writeln!(w, "{}", out).unwrap();
            w.flush().unwrap();
            CUR_START.store(0, std::sync::atomic::Ordering::Relaxed);
            continue;
        }
        let idx: usize = first.parse().unwrap();
        let flags = parts.next().unwrap_or("f");
        // `hex` or `hex*count[+hex]` (repetition, for very long inputs)
        let spec = parts.next().unwrap_or("");
        let bytes = if let Some((unit, rest)) = spec.split_once('*') {
            let (count, tail) = match rest.split_once('+') {
                Some((c, t)) => (c, t),
                None => (rest, ""),
            };
            let u = unhex(unit);
            let mut v = Vec::new();
            for _ in 0..count.parse::<usize>().unwrap() {
                v.extend_from_slice(&u);
            }
            v.extend_from_slice(&unhex(tail));
            v
        } else {
            unhex(spec)
        };
        // exactly-sized heap allocation: the source ends at the end of the allocation
        let boxed: Box<[u8]> = bytes.into_boxed_slice();
        let req = Req {
            partial: flags.contains('p'),
            trace: flags.contains('t'),
            stack: flags.contains('k'),
            max_items: flags.chars().filter(|c| c.is_ascii_digit()).collect::<String>().parse().unwrap_or(0),
            bytes: &boxed,
            splits: if flags.contains('c') {
                Some(parts.next().unwrap_or("").split(',').filter(|s| !s.is_empty()).map(|s| s.parse().unwrap()).collect())
            } else {
                None
            },
        };
        let mut body = String::new();
        let r = catch_unwind(AssertUnwindSafe(|| {
            let mut b = String::new();
            let known = defs::dispatch(idx, &req, &mut b);
            (known, b)
        }));
        // C05, guarded placement: the same source embedded in a larger buffer whose neighbouring bytes are
        // chosen to continue tokens / characters.  A lexer that never reads outside the source cannot tell.
        let mut guard_diff = String::new();
        if !req.stack {
            // baseline for the comparison: the exactly-sized allocation, hooks off
            let base: Option<String> = match &r {
                Ok((true, b0)) if !req.trace => Some(b0.clone()),
                Ok((true, _)) => {
                    let req0 = Req { partial: req.partial, trace: false, stack: false, max_items: req.max_items, bytes: &boxed, splits: req.splits.clone() };
                    catch_unwind(AssertUnwindSafe(|| {
                        let mut b = String::new();
                        defs::dispatch(idx, &req0, &mut b);
                        b
                    })).ok()
                }
                _ => None,
            };
            if let Some(ref b0) = base {
                for variant in 0..3usize {
                    let src: &[u8] = &boxed;
                    let last = src.last().copied().unwrap_or(b'a');
                    let mut buf: Vec<u8> = Vec::with_capacity(src.len() + 96);
                    const PRE: usize = 16;
                    for k in 0..PRE {
                        buf.push(match variant {
                            0 => last,
                            1 => 0xBF,
                            _ => if src.is_empty() { b'a' } else { src[(src.len() * 16 - PRE + k) % src.len()] },
                        });
                    }
                    buf.extend_from_slice(src);
                    for k in 0..72usize {
                        buf.push(match variant {
                            0 => last,
                            1 => 0x9F,
                            _ => if src.is_empty() { b'a' } else { src[k % src.len()] },
                        });
                    }
                    let req2 = Req { partial: req.partial, trace: false, stack: false, max_items: req.max_items, bytes: &buf[PRE..PRE + src.len()], splits: req.splits.clone() };
                    let r2 = catch_unwind(AssertUnwindSafe(|| {
                        let mut b = String::new();
                        let known = defs::dispatch(idx, &req2, &mut b);
                        (known, b)
                    }));
                    let same = match &r2 {
                        Ok((true, b2)) => b2 == b0,
                        _ => false,
                    };
                    if !same {
                        let got = match r2 {
                            Ok((_, b2)) => b2,
                            Err(_) => "panic".to_string(),
                        };
                        let _ = write!(guard_diff, ",\"guard\":{},\"guard_got\":\"{}\"", variant, clean(&got).replace('"', "'"));
                        break;
                    }
                }
            }
        }
        match r {
            Ok((true, b)) => {
                out.push_str(&b);
                out.push_str(&guard_diff);
            }
            Ok((false, _)) => out.push_str("\"unknown\":true"),
            Err(p) => {
                let msg = if let Some(s) = p.downcast_ref::<String>() {
                    s.clone()
                } else if let Some(s) = p.downcast_ref::<&str>() {
                    s.to_string()
                } else {
                    "panic".to_string()
                };
                let _ = write!(out, "\"panic\":\"{}\"", clean(&msg));
            }
        }
        out.push('}');
        writeln!(w, "{}", out).unwrap();
        w.flush().unwrap();
        CUR_START.store(0, std::sync::atomic::Ordering::Relaxed);
    }
}
