//! gen: runs the real `logos_codegen::generate()` on lexer definitions with the
//! graph-capture hook on, builds *independent* per-pattern reference automata,
//! computes the byte-block partition and exports everything as JSON constants
//! for the TLA+ specifications (defs.ndjson) plus harness-side metadata
//! (meta.ndjson).
//!
//! usage: gen capture <in.ndjson> <out_dir> [--stages]
//!        gen hash <in.ndjson> <out.ndjson> <threads>     (C16: output digests per thread)
//!        gen strip <in.ndjson> <out.ndjson>              (C17: strip_attributes as library)

use std::collections::{BTreeMap, HashMap};
use std::io::{BufRead, BufReader, Write};
use std::panic::{catch_unwind, AssertUnwindSafe};

use proc_macro2::{TokenStream, TokenTree};
use regex_automata::dfa::{dense, Automaton, StartKind};
use regex_automata::nfa::thompson;
use regex_automata::util::primitives::StateID;
use regex_automata::util::start;
use regex_automata::{Anchored, MatchKind};
use regex_syntax::hir::{self, Hir};
use serde::{Deserialize, Serialize};
use serde_json::{json, Value};

mod extract;
mod refdfa;
mod render;

pub use refdfa::*;
pub use render::*;

#[derive(Deserialize, Serialize, Clone, Debug)]
#[serde(untagged)]
pub enum Pat {
    S { s: String },
    B { b: Vec<u8> },
}

impl Pat {
    pub fn is_str(&self) -> bool {
        matches!(self, Pat::S { .. })
    }
    pub fn bytes(&self) -> Vec<u8> {
        match self {
            Pat::S { s } => s.as_bytes().to_vec(),
            Pat::B { b } => b.clone(),
        }
    }
}

#[derive(Deserialize, Serialize, Clone, Debug)]
pub struct Attr {
    /// "token" | "regex" | "skip"
    pub kind: String,
    pub pat: Pat,
    #[serde(default)]
    pub prio: Option<u64>,
    #[serde(default)]
    pub icase: bool,
    #[serde(default)]
    pub greedy: Option<bool>,
    /// raw callback expression (positional)
    #[serde(default)]
    pub cb: Option<String>,
    /// callback that adds this amount to `lex.extras` (u32 extras), for the API histories
    #[serde(default)]
    pub inc: Option<u32>,
    /// callback kind of the C13 table (see subj-template/src/cb.rs), rendered as `cbk::<kind>`
    #[serde(default)]
    pub cbk: Option<String>,
    /// explicit order of the named arguments when rendering (C18); default canonical
    #[serde(default)]
    pub order: Option<Vec<String>>,
}

#[derive(Deserialize, Serialize, Clone, Debug)]
pub struct Sub {
    pub name: String,
    pub pat: Pat,
}

#[derive(Deserialize, Serialize, Clone, Debug)]
pub struct Variant {
    #[serde(default)]
    pub name: Option<String>,
    pub attrs: Vec<Attr>,
    /// type of the single unnamed field, if any
    #[serde(default)]
    pub field: Option<String>,
}

#[derive(Deserialize, Serialize, Clone, Debug)]
pub struct DefIn {
    pub id: String,
    #[serde(default = "yes")]
    pub utf8: bool,
    #[serde(default)]
    pub subs: Vec<Sub>,
    #[serde(default)]
    pub skips: Vec<Attr>,
    #[serde(default)]
    pub vars: Vec<Variant>,
    /// extra `#[logos(...)]` contents, each rendered as its own attribute
    #[serde(default)]
    pub logos: Vec<String>,
    /// verbatim enum source; when present the structured fields only feed the reference
    #[serde(default)]
    pub raw: Option<String>,
    /// free-form tags used by the python side
    #[serde(default)]
    pub tags: Vec<String>,
    /// name of the enum (default D)
    #[serde(default)]
    pub enum_name: Option<String>,
    /// generic parameter list of the enum, e.g. `<'a, T>`
    #[serde(default)]
    pub enum_generics: Option<String>,
}

fn yes() -> bool {
    true
}

/// One leaf in logos order: skips first, then the attributes of the variants in order.
pub struct LeafIn<'a> {
    pub attr: &'a Attr,
    pub variant: Option<String>,
}

pub fn leaves_of(def: &DefIn) -> Vec<LeafIn<'_>> {
    let mut out = Vec::new();
    for a in &def.skips {
        out.push(LeafIn {
            attr: a,
            variant: None,
        });
    }
    for (i, v) in def.vars.iter().enumerate() {
        for a in &v.attrs {
            out.push(LeafIn {
                attr: a,
                variant: Some(v.name.clone().unwrap_or_else(|| format!("V{i}"))),
            });
        }
    }
    out
}

/// Captured graph in a convenient form.
#[derive(Clone, Debug, Default)]
pub struct CGraph {
    pub stage: String,
    pub root: usize,
    pub early: Vec<Option<usize>>,
    pub accept: Vec<Option<usize>>,
    pub eoi: Vec<Option<usize>>,
    /// per state, 256 entries, usize::MAX = no edge
    pub table: Vec<Vec<usize>>,
    pub leaves: Vec<Value>,
    pub errors: Vec<Value>,
}

pub const NONE: usize = usize::MAX;

pub fn parse_graph(v: &Value) -> CGraph {
    let mut g = CGraph {
        stage: v["stage"].as_str().unwrap().to_string(),
        root: v["root"].as_u64().unwrap() as usize,
        leaves: v["leaves"].as_array().unwrap().clone(),
        errors: v["errors"].as_array().unwrap().clone(),
        ..Default::default()
    };
    for st in v["states"].as_array().unwrap() {
        g.early.push(st["early"].as_u64().map(|x| x as usize));
        g.accept.push(st["accept"].as_u64().map(|x| x as usize));
        g.eoi.push(st["eoi"].as_u64().map(|x| x as usize));
        let mut t = vec![NONE; 256];
        for e in st["edges"].as_array().unwrap() {
            let to = e["to"].as_u64().unwrap() as usize;
            for r in e["ranges"].as_array().unwrap() {
                let lo = r[0].as_u64().unwrap() as usize;
                let hi = r[1].as_u64().unwrap() as usize;
                for b in lo..=hi {
                    t[b] = to;
                }
            }
        }
        g.table.push(t);
    }
    g
}

pub struct GenResult {
    pub out_text: String,
    pub panic: Option<String>,
    pub snapshots: Vec<Value>,
    pub errors: Vec<String>,
}

fn collect_compile_errors(ts: TokenStream, out: &mut Vec<String>) {
    let toks: Vec<TokenTree> = ts.into_iter().collect();
    let mut i = 0;
    while i < toks.len() {
        match &toks[i] {
            TokenTree::Ident(id) if id == "compile_error" => {
                if let (Some(TokenTree::Punct(p)), Some(TokenTree::Group(g))) =
                    (toks.get(i + 1), toks.get(i + 2))
                {
                    if p.as_char() == '!' {
                        if let Ok(l) = syn::parse2::<syn::LitStr>(g.stream()) {
                            out.push(l.value());
                        } else {
                            out.push(g.stream().to_string());
                        }
                        i += 3;
                        continue;
                    }
                }
            }
            TokenTree::Group(g) => collect_compile_errors(g.stream(), out),
            _ => {}
        }
        i += 1;
    }
}

pub fn run_generate(src: &str) -> GenResult {
    let ts: TokenStream = match src.parse() {
        Ok(ts) => ts,
        Err(e) => {
            return GenResult {
                out_text: String::new(),
                panic: Some(format!("harness: cannot tokenize source: {e}")),
                snapshots: vec![],
                errors: vec![],
            }
        }
    };
    logos_codegen::verif::start();
    let res = catch_unwind(AssertUnwindSafe(|| logos_codegen::generate(ts)));
    let lines = logos_codegen::verif::finish();
    let snapshots = lines
        .iter()
        .map(|l| serde_json::from_str::<Value>(l).expect("hook emits valid json"))
        .collect();
    match res {
        Ok(out) => {
            let mut errors = Vec::new();
            collect_compile_errors(out.clone(), &mut errors);
            // rustc reports output that is not a sequence of items as "proc-macro derive produced
            // unparsable tokens": neither an implementation nor a diagnostic of the derive
            let unparsable = syn::parse2::<syn::File>(out.clone())
                .err()
                .map(|e| format!("derive produced unparsable tokens: {e}"));
            GenResult {
                out_text: out.to_string(),
                panic: unparsable,
                snapshots,
                errors,
            }
        }
        Err(p) => {
            let msg = if let Some(s) = p.downcast_ref::<String>() {
                s.clone()
            } else if let Some(s) = p.downcast_ref::<&str>() {
                s.to_string()
            } else {
                "panic".to_string()
            };
            GenResult {
                out_text: String::new(),
                panic: Some(msg),
                snapshots,
                errors: vec![],
            }
        }
    }
}

pub fn norm_hash(text: &str, name: &str) -> String {
    // replace the enum name wherever it stands as a whole identifier
    let b = text.as_bytes();
    let n = name.as_bytes();
    let mut out = String::with_capacity(text.len());
    let mut i = 0;
    let is_id = |c: u8| c.is_ascii_alphanumeric() || c == b'_';
    while i < b.len() {
        if b[i..].starts_with(n) && (i == 0 || !is_id(b[i - 1])) && (i + n.len() == b.len() || !is_id(b[i + n.len()])) {
            out.push('D');
            i += n.len();
        } else {
            let ch = text[i..].chars().next().unwrap();
            out.push(ch);
            i += ch.len_utf8();
        }
    }
    fnv64(&out)
}

pub fn fnv64(s: &str) -> String {
    let mut h: u64 = 0xcbf29ce484222325;
    for b in s.as_bytes() {
        h ^= *b as u64;
        h = h.wrapping_mul(0x100000001b3);
    }
    let mut h2: u64 = 0x84222325cbf29ce4;
    for b in s.as_bytes().iter().rev() {
        h2 ^= *b as u64;
        h2 = h2.wrapping_mul(0x100000001b3);
    }
    format!("{h:016x}{h2:016x}:{}", s.len())
}

/// UTF-8 structural class of a byte (1..14), see Utf8.tla
pub fn utf8_class(b: u8) -> u8 {
    match b {
        0x00..=0x7F => 1,
        0x80..=0x8F => 2,
        0x90..=0x9F => 3,
        0xA0..=0xBF => 4,
        0xC0..=0xC1 => 5,
        0xC2..=0xDF => 6,
        0xE0 => 7,
        0xE1..=0xEC => 8,
        0xED => 9,
        0xEE..=0xEF => 10,
        0xF0 => 11,
        0xF1..=0xF3 => 12,
        0xF4 => 13,
        0xF5..=0xFF => 14,
    }
}

fn graph_to_tla(g: &CGraph, block_rep: &[u8]) -> Value {
    let n = g.table.len();
    let o1 = |x: Option<usize>| x.map(|v| v + 1).unwrap_or(0);
    let edge: Vec<Vec<usize>> = (0..n)
        .map(|s| {
            block_rep
                .iter()
                .map(|&b| {
                    let t = g.table[s][b as usize];
                    if t == NONE {
                        0
                    } else {
                        t + 1
                    }
                })
                .collect()
        })
        .collect();
    json!({
        "root": g.root + 1,
        "n": n,
        "early": g.early.iter().map(|x| o1(*x)).collect::<Vec<_>>(),
        "accept": g.accept.iter().map(|x| o1(*x)).collect::<Vec<_>>(),
        "eoi": g.eoi.iter().map(|x| o1(*x)).collect::<Vec<_>>(),
        "edge": edge,
    })
}

fn capture(in_path: &str, out_dir: &str, stages: bool) {
    let f = BufReader::new(std::fs::File::open(in_path).expect("open input"));
    std::fs::create_dir_all(out_dir).unwrap();
    let mut defs_out = std::fs::File::create(format!("{out_dir}/defs.ndjson")).unwrap();
    let mut meta_out = std::fs::File::create(format!("{out_dir}/meta.ndjson")).unwrap();
    // silence panic messages of the code under test (they are data)
    std::panic::set_hook(Box::new(|_| {}));
    let mut idx = 0usize;
    for line in f.lines() {
        let line = line.unwrap();
        if line.trim().is_empty() {
            continue;
        }
        let def: DefIn = serde_json::from_str(&line).unwrap_or_else(|e| panic!("bad def: {e}: {line}"));
        idx += 1;
        let src = render_def(&def);
        let res = run_generate(&src);
        let accepted = res.panic.is_none() && res.errors.is_empty();
        let graphs: Vec<CGraph> = res.snapshots.iter().map(parse_graph).collect();
        let final_g = graphs.iter().rev().find(|g| g.stage == "final").cloned();

        // reference automata, independent of logos
        let leaves = leaves_of(&def);
        let mut refs: Vec<Result<RefDfa, String>> = Vec::new();
        for l in &leaves {
            refs.push(build_ref(&def, l.attr));
        }

        // block partition
        let mut sig_of: HashMap<Vec<u32>, usize> = HashMap::new();
        let mut block_of = [0usize; 256];
        let mut block_rep: Vec<u8> = Vec::new();
        let mut block_bytes: Vec<Vec<u8>> = Vec::new();
        for b in 0..=255u8 {
            let mut sig: Vec<u32> = vec![utf8_class(b) as u32];
            for g in &graphs {
                if !stages && g.stage != "final" {
                    continue;
                }
                for t in &g.table {
                    sig.push(t[b as usize] as u32);
                }
            }
            for r in refs.iter().flatten() {
                for t in &r.tr {
                    sig.push(t[b as usize] as u32);
                }
            }
            let next = sig_of.len();
            let k = *sig_of.entry(sig).or_insert(next);
            if k == block_rep.len() {
                block_rep.push(b);
                block_bytes.push(Vec::new());
            }
            block_of[b as usize] = k;
            block_bytes[k].push(b);
        }
        let nb = block_rep.len();
        let u8cls: Vec<u8> = block_rep.iter().map(|&b| utf8_class(b)).collect();

        // leaf facts: captured where available (priorities), own otherwise
        let nl = leaves.len();
        let captured_leaves = final_g.as_ref().map(|g| g.leaves.clone()).unwrap_or_default();
        let leaf_count_ok = captured_leaves.len() == nl;
        let prio: Vec<u64> = (0..nl)
            .map(|i| {
                captured_leaves
                    .get(i)
                    .and_then(|l| l["prio"].as_u64())
                    .unwrap_or(0)
            })
            .collect();
        let kinds: Vec<String> = leaves
            .iter()
            .map(|l| if l.variant.is_none() { "skip".to_string() } else { "tok".to_string() })
            .collect();
        let refs_ok = refs.iter().all(|r| r.is_ok());
        let ref_tla: Vec<Value> = refs
            .iter()
            .map(|r| match r {
                Ok(r) => {
                    let n = r.tr.len();
                    let tr: Vec<Vec<usize>> = (0..n)
                        .map(|s| block_rep.iter().map(|&b| r.tr[s][b as usize]).collect())
                        .collect();
                    json!({"start": r.start, "n": n, "tr": tr, "eoi": r.eoi, "rep": r.rep,
                           "via": r.viable(), "look": r.look, "nullable": r.nullable})
                }
                Err(_) => json!({"start": 0, "n": 0, "tr": [], "eoi": [], "rep": [], "via": [], "look": false, "nullable": false}),
            })
            .collect();
        let ties: Vec<Vec<usize>> = final_g
            .as_ref()
            .map(|g| {
                g.errors
                    .iter()
                    .filter(|e| e["t"] == "disamb")
                    .map(|e| {
                        e["leaves"]
                            .as_array()
                            .unwrap()
                            .iter()
                            .map(|x| x.as_u64().unwrap() as usize + 1)
                            .collect()
                    })
                    .collect()
            })
            .unwrap_or_default();
        let gerr_kinds: Vec<String> = final_g
            .as_ref()
            .map(|g| g.errors.iter().map(|e| e["t"].as_str().unwrap().to_string()).collect())
            .unwrap_or_default();
        let has_graph = final_g.as_ref().map(|g| !g.table.is_empty()).unwrap_or(false);
        let empty_graph = CGraph::default();
        let g_tla = graph_to_tla(final_g.as_ref().filter(|_| has_graph).unwrap_or(&empty_graph), &block_rep);
        let stage_tla: Vec<Value> = if stages {
            graphs
                .iter()
                .map(|g| {
                    let mut v = graph_to_tla(g, &block_rep);
                    v["stage"] = json!(g.stage);
                    v
                })
                .collect()
        } else {
            vec![]
        };
        let d = json!({
            "idx": idx,
            "id": def.id,
            "mode": if def.utf8 { "str" } else { "bytes" },
            "accepted": accepted,
            "hasGraph": has_graph,
            "refsOk": refs_ok && leaf_count_ok,
            "nB": nb,
            "nL": nl,
            "u8": u8cls,
            "prio": prio,
            "kind": kinds,
            "inc": leaves.iter().map(|l| l.attr.inc.unwrap_or(0)).collect::<Vec<_>>(),
            "cbk": leaves.iter().map(|l| l.attr.cbk.clone().unwrap_or_default()).collect::<Vec<_>>(),
            "role": def.tags.iter().find_map(|t| t.strip_prefix("role:")).unwrap_or("").to_string(),
            "vname": leaves.iter().map(|l| l.variant.clone().unwrap_or_default()).collect::<Vec<_>>(),
            "g": g_tla,
            "ref": ref_tla,
            "ties": ties,
            "stages": stage_tla,
        });
        writeln!(defs_out, "{}", serde_json::to_string(&d).unwrap()).unwrap();

        let blocks_ranges: Vec<Vec<[u8; 2]>> = block_bytes
            .iter()
            .map(|bs| {
                let mut rs: Vec<[u8; 2]> = Vec::new();
                for &b in bs {
                    if let Some(last) = rs.last_mut() {
                        if last[1] as u16 + 1 == b as u16 {
                            last[1] = b;
                            continue;
                        }
                    }
                    rs.push([b, b]);
                }
                rs
            })
            .collect();
        let m = json!({
            "idx": idx,
            "id": def.id,
            "tags": def.tags,
            "utf8": def.utf8,
            "src": src,
            "accepted": accepted,
            "panic": res.panic,
            "errors": res.errors,
            "gerrors": gerr_kinds,
            "out_hash": fnv64(&res.out_text),
            // the same with the enum name replaced, to compare definitions that differ only in their name
            "out_hash_norm": norm_hash(&res.out_text, def.enum_name.as_deref().unwrap_or("D")),
            "blocks": blocks_ranges,
            "variants": leaves.iter().map(|l| l.variant.clone()).collect::<Vec<_>>(),
            "captured_leaves": captured_leaves,
            "ref_errors": refs.iter().map(|r| r.as_ref().err().cloned()).collect::<Vec<_>>(),
            "has_graph": has_graph,
            "n_states": final_g.as_ref().map(|g| g.table.len()).unwrap_or(0),
            "def": def,
        });
        writeln!(meta_out, "{}", serde_json::to_string(&m).unwrap()).unwrap();
    }
}

fn hash_mode(in_path: &str, out_path: &str, threads: usize) {
    let text = std::fs::read_to_string(in_path).unwrap();
    let defs: Vec<DefIn> = text
        .lines()
        .filter(|l| !l.trim().is_empty())
        .map(|l| serde_json::from_str(l).unwrap())
        .collect();
    std::panic::set_hook(Box::new(|_| {}));
    let defs = std::sync::Arc::new(defs);
    let mut handles = Vec::new();
    for t in 0..threads {
        let defs = defs.clone();
        handles.push(std::thread::spawn(move || {
            let mut out = Vec::new();
            // every thread goes through the definitions in an order of its own (rotated, odd threads backwards):
            // what one definition leaves behind must not change what the next one generates
            let n = defs.len();
            let order: Vec<usize> = (0..n)
                .map(|k| {
                    let k = (k + t * n / threads.max(1)) % n.max(1);
                    if t % 2 == 1 { n - 1 - k } else { k }
                })
                .collect();
            for &k in order.iter() {
                let d = &defs[k];
                let src = render_def(d);
                let r = run_generate(&src);
                let gh = r
                    .snapshots
                    .iter()
                    .rev()
                    .find(|s| s["stage"] == "final")
                    .map(|s| fnv64(&s.to_string()))
                    .unwrap_or_default();
                let strip = strip_text(&src);
                out.push(json!({"id": d.id, "thread": t, "pid": std::process::id(),
                    "out": fnv64(&r.out_text), "graph": gh, "strip": fnv64(&strip),
                    "panic": r.panic}));
            }
            out
        }));
    }
    let mut f = std::fs::File::create(out_path).unwrap();
    for h in handles {
        for v in h.join().unwrap() {
            writeln!(f, "{}", v).unwrap();
        }
    }
}

pub fn strip_text(src: &str) -> String {
    let ts: TokenStream = match src.parse() {
        Ok(t) => t,
        Err(_) => return "<lex error>".into(),
    };
    match catch_unwind(AssertUnwindSafe(|| logos_codegen::strip_attributes(ts))) {
        Ok(t) => t.to_string(),
        Err(_) => "<panic>".into(),
    }
}

fn strip_mode(in_path: &str, out_path: &str) {
    let text = std::fs::read_to_string(in_path).unwrap();
    std::panic::set_hook(Box::new(|_| {}));
    let mut f = std::fs::File::create(out_path).unwrap();
    for l in text.lines().filter(|l| !l.trim().is_empty()) {
        let v: Value = serde_json::from_str(l).unwrap();
        let src = v["src"].as_str().unwrap();
        let r = run_generate(src);
        writeln!(
            f,
            "{}",
            json!({"id": v["id"], "strip": strip_text(src), "gen": r.out_text, "panic": r.panic, "errors": r.errors})
        )
        .unwrap();
    }
}

/// C17: compare what logos-cli printed with the expected stripped enum and with the output of
/// `generate()` for the same input.
fn clicheck_mode(in_path: &str, out_path: &str) {
    use quote::ToTokens;
    let text = std::fs::read_to_string(in_path).unwrap();
    std::panic::set_hook(Box::new(|_| {}));
    let mut f = std::fs::File::create(out_path).unwrap();
    // derive lists are compared as lists of paths (a trailing comma is not a difference)
    fn norm_item(item: &mut syn::Item) -> Result<(), String> {
        use syn::punctuated::Punctuated;
        if let syn::Item::Enum(e) = item {
            for attr in &mut e.attrs {
                if attr.path().is_ident("derive") {
                    let paths = attr
                        .parse_args_with(Punctuated::<syn::Path, syn::Token![,]>::parse_terminated)
                        .map_err(|err| format!("derive list is not a list of paths: {err}"))?;
                    let list: Vec<syn::Path> = paths.into_iter().collect();
                    *attr = syn::parse_quote!(#[derive(#(#list),*)]);
                }
            }
        }
        Ok(())
    }
    let norm = |s: &str| -> Option<String> {
        let mut f = syn::parse_file(s).ok()?;
        let it = f.items.get_mut(0)?;
        norm_item(it).ok()?;
        Some(it.to_token_stream().to_string())
    };
    for l in text.lines().filter(|l| !l.trim().is_empty()) {
        let v: Value = serde_json::from_str(l).unwrap();
        let src = v["src"].as_str().unwrap();
        let stdout = v["stdout"].as_str().unwrap();
        let expect = v["expect"].as_str().unwrap();
        let mut why = Value::Null;
        match syn::parse_file(stdout) {
            Err(e) => why = json!(format!("output is not valid Rust: {e}")),
            Ok(mut file) => {
                if file.items.is_empty() {
                    why = json!("no items in output");
                } else if let Err(e) = norm_item(&mut file.items[0]) {
                    why = json!(e);
                } else {
                    let first = file.items[0].to_token_stream().to_string();
                    let want = norm(expect).unwrap_or_default();
                    if first != want {
                        why = json!(format!("stripped enum differs: got `{first}` want `{want}`"));
                    } else {
                        let rest: String = file.items[1..].iter().map(|i| i.to_token_stream().to_string()).collect::<Vec<_>>().join(" ");
                        let r = run_generate(src);
                        let genf = syn::parse_file(&r.out_text)
                            .map(|f| f.items.iter().map(|i| i.to_token_stream().to_string()).collect::<Vec<_>>().join(" "))
                            .unwrap_or_else(|_| "<generate output unparsable>".into());
                        if rest != genf {
                            why = json!("implementation part differs from generate()");
                        }
                    }
                }
            }
        }
        writeln!(f, "{}", json!({"id": v["id"], "why": why})).unwrap();
    }
}

/// EdgeImpl.tla: one line per request `{"classes": [[[lo, hi], ...], ...]}`; the reply is what the real helpers of
/// the graph module (impl_with_cmp, count_ops, to_table, can_error, merge) compute, through the hook.
fn edgeimpl_mode(inp: &str, outp: &str) {
    let text = std::fs::read_to_string(inp).unwrap();
    let mut f = std::fs::File::create(outp).unwrap();
    for line in text.lines() {
        if line.trim().is_empty() {
            continue;
        }
        let v: serde_json::Value = serde_json::from_str(line).unwrap();
        let classes: Vec<Vec<(u8, u8)>> = v["classes"]
            .as_array()
            .unwrap()
            .iter()
            .map(|c| c.as_array().unwrap().iter().map(|r| (r[0].as_u64().unwrap() as u8, r[1].as_u64().unwrap() as u8)).collect())
            .collect();
        let r = std::panic::catch_unwind(|| logos_codegen::verif::edge_impl(&classes));
        match r {
            Ok(j) => writeln!(f, "{}", j).unwrap(),
            Err(_) => writeln!(f, "{{\"panic\":true}}").unwrap(),
        }
    }
}

fn main() {
    let args: Vec<String> = std::env::args().collect();
    match args.get(1).map(|s| s.as_str()) {
        Some("capture") => capture(&args[2], &args[3], args.iter().any(|a| a == "--stages")),
        Some("hash") => hash_mode(&args[2], &args[3], args[4].parse().unwrap()),
        Some("strip") => strip_mode(&args[2], &args[3]),
        Some("clicheck") => clicheck_mode(&args[2], &args[3]),
        Some("edgeimpl") => edgeimpl_mode(&args[2], &args[3]),
        Some("extract") => {
            let mut f = std::fs::File::create(&args[2]).unwrap();
            for v in extract::extract(&args[3..]) {
                writeln!(f, "{}", v).unwrap();
            }
        }
        _ => {
            eprintln!("usage: gen capture|hash|strip ...");
            std::process::exit(2);
        }
    }
}

// keep unused imports referenced in submodules tidy
#[allow(unused)]
fn _unused(_: BTreeMap<u8, u8>, _: StateID, _: Hir, _: hir::Class) {
    let _ = (StartKind::Anchored, MatchKind::All, Anchored::Yes);
    let _ = thompson::Config::new();
    let _ = dense::Config::new();
    let _ = start::Config::new();
    fn _a<A: Automaton>(_: &A) {}
}
