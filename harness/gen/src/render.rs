//! Rendering of a structured definition to the Rust enum source handed to the derive.

use crate::{Attr, DefIn, Pat};

pub fn lit(p: &Pat) -> String {
    match p {
        Pat::S { s } => format!("{s:?}"),
        Pat::B { b } => {
            let mut out = String::from("b\"");
            for x in b {
                out.push_str(&format!("\\x{x:02x}"));
            }
            out.push('"');
            out
        }
    }
}

/// The argument list of a token/regex/skip attribute.
pub fn attr_args(a: &Attr) -> String {
    let mut parts = vec![lit(&a.pat)];
    let default_order = ["priority", "allow_greedy", "ignore"];
    let order: Vec<String> = match &a.order {
        Some(o) => o.clone(),
        None => default_order.iter().map(|s| s.to_string()).collect(),
    };
    let cb_named = order.iter().any(|x| x == "callback");
    let cb_text: Option<String> = match (&a.cb, a.inc, &a.cbk) {
        (Some(cb), _, _) => Some(cb.clone()),
        (None, Some(n), _) => Some(format!("|lex| {{ lex.extras += {n}; }}")),
        (None, None, Some(k)) => Some(format!("crate::cb::{k}")),
        _ => None,
    };
    if let (Some(cb), false) = (&cb_text, cb_named) {
        parts.push(cb.clone());
    }
    for name in &order {
        match name.as_str() {
            "priority" => {
                if let Some(p) = a.prio {
                    parts.push(format!("priority = {p}"));
                }
            }
            "allow_greedy" => {
                if let Some(g) = a.greedy {
                    parts.push(format!("allow_greedy = {g}"));
                }
            }
            "ignore" => {
                if a.icase {
                    parts.push("ignore(case)".to_string());
                }
            }
            "callback" => {
                if let Some(cb) = &cb_text {
                    parts.push(format!("callback = {cb}"));
                }
            }
            other => parts.push(other.to_string()),
        }
    }
    parts.join(", ")
}

pub fn render_def(def: &DefIn) -> String {
    if let Some(raw) = &def.raw {
        return raw.clone();
    }
    let name = def.enum_name.clone().unwrap_or_else(|| "D".to_string());
    let mut out = String::new();
    out.push_str("#[derive(Logos, Debug, PartialEq, Clone)]\n");
    if !def.utf8 {
        out.push_str("#[logos(utf8 = false)]\n");
    }
    for l in &def.logos {
        out.push_str(&format!("#[logos({l})]\n"));
    }
    for s in &def.subs {
        out.push_str(&format!("#[logos(subpattern {} = {})]\n", s.name, lit(&s.pat)));
    }
    for s in &def.skips {
        out.push_str(&format!("#[logos(skip({}))]\n", attr_args(s)));
    }
    out.push_str(&format!("pub enum {name}{} {{\n", def.enum_generics.clone().unwrap_or_default()));
    for (i, v) in def.vars.iter().enumerate() {
        for a in &v.attrs {
            out.push_str(&format!("    #[{}({})]\n", a.kind, attr_args(a)));
        }
        let vname = v.name.clone().unwrap_or_else(|| format!("V{i}"));
        match &v.field {
            Some(f) => out.push_str(&format!("    {vname}({f}),\n")),
            None => out.push_str(&format!("    {vname},\n")),
        }
    }
    out.push_str("}\n");
    // callbacks that must name the enum (nested fn items cannot use `Self`)
    out.replace("@E@", &name)
}
