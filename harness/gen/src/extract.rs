//! Extraction of the lexer definitions found in the repository's own tests and examples
//! (every enum with `#[derive(Logos)]`), as structured definitions.  Callbacks are dropped
//! (the graph does not depend on them); definitions using features the structured form cannot
//! express (generics with `type`, custom sources) are still extracted, their patterns are what
//! matters.

use proc_macro2::{TokenStream, TokenTree};
use serde_json::{json, Value};
use syn::visit::Visit;

struct Finder {
    out: Vec<Value>,
    file: String,
}

fn lit_pat(l: &syn::Lit) -> Option<Value> {
    match l {
        syn::Lit::Str(s) => Some(json!({"s": s.value()})),
        syn::Lit::ByteStr(b) => Some(json!({"b": b.value()})),
        _ => None,
    }
}

fn split_commas(ts: TokenStream) -> Vec<Vec<TokenTree>> {
    let mut out = vec![Vec::new()];
    for tt in ts {
        if let TokenTree::Punct(p) = &tt {
            if p.as_char() == ',' {
                out.push(Vec::new());
                continue;
            }
        }
        out.last_mut().unwrap().push(tt);
    }
    out.into_iter().filter(|v| !v.is_empty()).collect()
}

fn parse_lit_tokens(tts: &[TokenTree]) -> Option<Value> {
    let ts: TokenStream = tts.iter().cloned().collect();
    syn::parse2::<syn::Lit>(ts).ok().and_then(|l| lit_pat(&l))
}

/// literal, [callback,] named...  ->  attr json (without kind)
fn parse_def_args(ts: TokenStream) -> Option<Value> {
    let parts = split_commas(ts);
    let first = parts.first()?;
    let pat = parse_lit_tokens(first)?;
    let mut a = json!({"pat": pat});
    for p in &parts[1..] {
        if let Some(TokenTree::Ident(id)) = p.first() {
            let name = id.to_string();
            let rest: Vec<TokenTree> = p[1..].to_vec();
            let is_assign = matches!(rest.first(), Some(TokenTree::Punct(q)) if q.as_char() == '=');
            match (name.as_str(), is_assign) {
                ("priority", true) => {
                    let v: String = rest[1..].iter().map(|t| t.to_string()).collect();
                    if let Ok(n) = v.parse::<u64>() {
                        a["prio"] = json!(n);
                    }
                }
                ("allow_greedy", true) => {
                    let v: String = rest[1..].iter().map(|t| t.to_string()).collect();
                    a["greedy"] = json!(v == "true");
                }
                ("ignore", false) => {
                    if let Some(TokenTree::Group(g)) = rest.first() {
                        if g.stream().to_string().contains("case") {
                            a["icase"] = json!(true);
                        }
                    }
                }
                _ => {}
            }
        }
    }
    Some(a)
}

impl<'ast> Visit<'ast> for Finder {
    fn visit_item_enum(&mut self, e: &'ast syn::ItemEnum) {
        let derives_logos = e.attrs.iter().any(|a| {
            a.path().is_ident("derive") && a.meta.require_list().map(|l| l.tokens.to_string().contains("Logos")).unwrap_or(false)
        });
        if !derives_logos {
            return;
        }
        let mut utf8 = true;
        let mut subs = Vec::new();
        let mut skips = Vec::new();
        let mut ok = true;
        for a in &e.attrs {
            if !a.path().is_ident("logos") {
                continue;
            }
            let Ok(list) = a.meta.require_list() else { continue };
            for item in split_commas(list.tokens.clone()) {
                let Some(TokenTree::Ident(name)) = item.first() else { continue };
                match name.to_string().as_str() {
                    "utf8" => {
                        if item.iter().any(|t| t.to_string() == "false") {
                            utf8 = false;
                        }
                    }
                    "skip" => match item.get(1) {
                        Some(TokenTree::Group(g)) => match parse_def_args(g.stream()) {
                            Some(mut a) => {
                                a["kind"] = json!("skip");
                                skips.push(a);
                            }
                            None => ok = false,
                        },
                        Some(_) => match parse_lit_tokens(&item[1..]) {
                            Some(p) => skips.push(json!({"kind": "skip", "pat": p})),
                            None => ok = false,
                        },
                        None => ok = false,
                    },
                    "subpattern" => {
                        if let (Some(TokenTree::Ident(n)), Some(p)) = (item.get(1), item.get(3..).and_then(parse_lit_tokens)) {
                            subs.push(json!({"name": n.to_string(), "pat": p}));
                        } else {
                            ok = false;
                        }
                    }
                    _ => {}
                }
            }
        }
        let mut vars = Vec::new();
        for (i, v) in e.variants.iter().enumerate() {
            let mut attrs = Vec::new();
            for a in &v.attrs {
                let kind = if a.path().is_ident("token") {
                    "token"
                } else if a.path().is_ident("regex") {
                    "regex"
                } else {
                    continue;
                };
                let Ok(list) = a.meta.require_list() else {
                    ok = false;
                    continue;
                };
                match parse_def_args(list.tokens.clone()) {
                    Some(mut x) => {
                        x["kind"] = json!(kind);
                        attrs.push(x);
                    }
                    None => ok = false,
                }
            }
            vars.push(json!({"name": format!("V{i}"), "attrs": attrs}));
        }
        if ok && vars.iter().any(|v| !v["attrs"].as_array().unwrap().is_empty()) {
            self.out.push(json!({
                "id": format!("repo:{}:{}", self.file, e.ident),
                "utf8": utf8, "subs": subs, "skips": skips, "vars": vars, "tags": ["repo"],
            }));
        }
        syn::visit::visit_item_enum(self, e);
    }
}

pub fn extract(paths: &[String]) -> Vec<Value> {
    let mut out = Vec::new();
    for p in paths {
        let Ok(text) = std::fs::read_to_string(p) else { continue };
        let Ok(file) = syn::parse_file(&text) else { continue };
        let mut f = Finder { out: Vec::new(), file: p.rsplit('/').take(2).collect::<Vec<_>>().into_iter().rev().collect::<Vec<_>>().join("/") };
        f.visit_file(&file);
        out.extend(f.out);
    }
    out
}
