//! Reference automata: one per pattern, built from the pattern *as written* in the
//! structured definition, without going through any logos code:
//!   * `#[token(w)]`            -> hand-built chain over the bytes of w
//!   * `#[token(w, ignore(case))]` -> concatenation of per-character simple-case-folded classes
//!   * `#[regex]` / skip        -> own textual subpattern inlining, then regex-syntax +
//!                                 regex-automata single-pattern anchored all-matches DFA
//! All automata use regex-automata's delayed reporting: `rep[delta(s, x)]` means "the text
//! consumed before x is a match in this context (x = next byte or end of input)".

use std::collections::HashMap;

use regex_automata::dfa::{dense, Automaton, StartKind};
use regex_automata::nfa::thompson;
use regex_automata::util::start;
use regex_automata::{Anchored, MatchKind};
use regex_syntax::hir::{Class, ClassBytes, ClassBytesRange, ClassUnicode, ClassUnicodeRange, Hir};
use regex_syntax::ParserBuilder;

use crate::{Attr, DefIn, Pat};

#[derive(Clone, Debug)]
pub struct RefDfa {
    /// 1-based start state
    pub start: usize,
    /// tr[s-1][byte] in 0..=n, 0 = dead
    pub tr: Vec<Vec<usize>>,
    pub eoi: Vec<usize>,
    pub rep: Vec<bool>,
    pub look: bool,
    pub nullable: bool,
}

impl RefDfa {
    /// via[s-1]: a reporting state is reachable from s in >= 1 steps
    pub fn viable(&self) -> Vec<bool> {
        let n = self.tr.len();
        let mut via = vec![false; n];
        loop {
            let mut changed = false;
            for s in 0..n {
                if via[s] {
                    continue;
                }
                let mut ok = false;
                let succ = self.tr[s].iter().chain(std::iter::once(&self.eoi[s]));
                for &t in succ {
                    if t != 0 && (self.rep[t - 1] || via[t - 1]) {
                        ok = true;
                        break;
                    }
                }
                if ok {
                    via[s] = true;
                    changed = true;
                }
            }
            if !changed {
                break;
            }
        }
        via
    }
}

/// The regex text a pattern literal denotes (byte strings: ASCII as is, others as \xHH).
pub fn pat_text(p: &Pat) -> String {
    match p {
        Pat::S { s } => s.clone(),
        Pat::B { b } => {
            let mut out = String::new();
            for &byte in b {
                if byte < 0x80 {
                    out.push(byte as char);
                } else {
                    out.push_str(&format!("\\x{byte:02X}"));
                }
            }
            out
        }
    }
}

fn is_name_char(c: u8) -> bool {
    c.is_ascii_alphanumeric() || c == b'_'
}

/// Own implementation of scoped inclusion: every `(?&name)` becomes the (already expanded)
/// subpattern wrapped in a non-capturing group that carries the subpattern's own Unicode flag.
pub fn inline_subpatterns(text: &str, env: &HashMap<String, String>) -> Result<String, String> {
    let b = text.as_bytes();
    let mut out = String::new();
    let mut i = 0;
    while i < b.len() {
        if b[i..].starts_with(b"(?&") {
            let mut j = i + 3;
            while j < b.len() && is_name_char(b[j]) {
                j += 1;
            }
            if j > i + 3 && j < b.len() && b[j] == b')' {
                let name = &text[i + 3..j];
                match env.get(name) {
                    Some(exp) => out.push_str(exp),
                    None => return Err(format!("undefined subpattern {name}")),
                }
                i = j + 1;
                continue;
            }
        }
        // copy one UTF-8 character
        let ch = text[i..].chars().next().unwrap();
        out.push(ch);
        i += ch.len_utf8();
    }
    Ok(out)
}

pub fn sub_env(def: &DefIn) -> Result<HashMap<String, String>, String> {
    let mut env: HashMap<String, String> = HashMap::new();
    for s in &def.subs {
        let flag = if s.pat.is_str() { "u" } else { "-u" };
        let body = inline_subpatterns(&pat_text(&s.pat), &env)?;
        env.insert(s.name.clone(), format!("(?{flag}:{body})"));
    }
    Ok(env)
}

pub fn hir_of(def: &DefIn, a: &Attr) -> Result<Hir, String> {
    match a.kind.as_str() {
        "token" => {
            if !a.icase {
                return Ok(Hir::literal(a.pat.bytes()));
            }
            let mut parts = Vec::new();
            match &a.pat {
                Pat::S { s } => {
                    for c in s.chars() {
                        let mut cls = ClassUnicode::new([ClassUnicodeRange::new(c, c)]);
                        cls.try_case_fold_simple().map_err(|e| e.to_string())?;
                        parts.push(Hir::class(Class::Unicode(cls)));
                    }
                }
                Pat::B { b } => {
                    for &x in b {
                        let mut cls = ClassBytes::new([ClassBytesRange::new(x, x)]);
                        cls.case_fold_simple();
                        parts.push(Hir::class(Class::Bytes(cls)));
                    }
                }
            }
            Ok(Hir::concat(parts))
        }
        _ => {
            let env = sub_env(def)?;
            let text = inline_subpatterns(&pat_text(&a.pat), &env)?;
            ParserBuilder::new()
                .utf8(false)
                .unicode(a.pat.is_str())
                .case_insensitive(a.icase)
                .build()
                .parse(&text)
                .map_err(|e| format!("syntax: {e}"))
        }
    }
}

fn chain(w: &[u8]) -> RefDfa {
    let n = w.len();
    let total = n + 2;
    let mut tr = vec![vec![0usize; 256]; total];
    let mut eoi = vec![0usize; total];
    let mut rep = vec![false; total];
    for k in 0..n {
        tr[k][w[k] as usize] = k + 2;
    }
    for b in 0..256 {
        tr[n][b] = n + 2;
    }
    eoi[n] = n + 2;
    rep[n + 1] = true;
    RefDfa {
        start: 1,
        tr,
        eoi,
        rep,
        look: false,
        nullable: n == 0,
    }
}

pub fn dfa_of_hir(h: &Hir) -> Result<RefDfa, String> {
    let nfa = thompson::Compiler::new()
        .configure(thompson::Config::new().utf8(false).shrink(false))
        .build_from_hir(h)
        .map_err(|e| format!("nfa: {e}"))?;
    let dfa = dense::Builder::new()
        .configure(
            dense::Config::new()
                .accelerate(false)
                .match_kind(MatchKind::All)
                .start_kind(StartKind::Anchored)
                .minimize(false)
                .dfa_size_limit(Some(64 << 20))
                .determinize_size_limit(Some(64 << 20)),
        )
        .build_from_nfa(&nfa)
        .map_err(|e| format!("dfa: {e}"))?;
    let start = dfa
        .start_state(&start::Config::new().anchored(Anchored::Yes))
        .map_err(|e| format!("start: {e}"))?;
    let mut index = HashMap::new();
    let mut order = Vec::new();
    if dfa.is_dead_state(start) {
        return Err("start state is dead".into());
    }
    index.insert(start, 1usize);
    order.push(start);
    let mut i = 0;
    let mut tr = Vec::new();
    let mut eoi = Vec::new();
    let mut rep = Vec::new();
    while i < order.len() {
        let s = order[i];
        i += 1;
        if dfa.is_quit_state(s) {
            return Err("quit state".into());
        }
        let mut row = vec![0usize; 256];
        for b in 0..=255u8 {
            let t = dfa.next_state(s, b);
            if dfa.is_dead_state(t) {
                continue;
            }
            let next = index.len() + 1;
            let id = *index.entry(t).or_insert_with(|| {
                order.push(t);
                next
            });
            row[b as usize] = id;
        }
        let t = dfa.next_eoi_state(s);
        let e = if dfa.is_dead_state(t) {
            0
        } else {
            let next = index.len() + 1;
            *index.entry(t).or_insert_with(|| {
                order.push(t);
                next
            })
        };
        tr.push(row);
        eoi.push(e);
        rep.push(dfa.is_match_state(s));
        if order.len() > 20000 {
            return Err("reference dfa too large".into());
        }
    }
    // the pattern matches the empty string (in some context) iff a match of the empty text is reported one step after
    // the start state, on some byte or on the end of input.  (regex-syntax's minimum_len() is not that: it is None for a
    // pattern with a class that matches nothing, like `[a-z]*[^\s\S]?`, which does match the empty string.)
    let after_start: Vec<usize> = tr[0].iter().copied().chain(std::iter::once(eoi[0])).filter(|&t| t != 0).collect();
    let nullable = after_start.iter().any(|&t| rep.get(t - 1).copied().unwrap_or(false));
    Ok(RefDfa {
        start: 1,
        tr,
        eoi,
        rep,
        look: !h.properties().look_set().is_empty(),
        nullable,
    })
}

pub fn build_ref(def: &DefIn, a: &Attr) -> Result<RefDfa, String> {
    if a.kind == "token" && !a.icase {
        return Ok(chain(&a.pat.bytes()));
    }
    let h = hir_of(def, a)?;
    dfa_of_hir(&h)
}
