#!/bin/sh
# Offline setup: parse the specifications and build the harness tool against /repo's current tree.
set -e
cd "$(dirname "$0")"
export CARGO_NET_OFFLINE=true
for m in spec/*.tla; do
  (cd spec && tla-sany "$(basename "$m")" >/dev/null 2>&1) || { echo "SANY failed on $m"; exit 1; }
done
mkdir -p work evidence
(cd harness && cargo build -p gen --offline --target-dir ../work/target 2>&1 | tail -2)
echo setup ok
